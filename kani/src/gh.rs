//! Ghost state, task wakers, retained child-waker handles, environment events
//! and (under Kani) the explicit-dispatch `Waker` stubs.
#![allow(static_mut_refs)]

use crate::nd;
use core::mem::ManuallyDrop;
use core::task::{RawWaker, RawWakerVTable, Waker};

/// slots tracked by the ghost (harness capacities are <= MAXS)
pub const MAXS: usize = 4;
/// child identities
pub const NCH: usize = 8;
/// retained child-waker handles
pub const NH: usize = 2;
pub const NOSLOT: u8 = 0xff;

pub struct Ghost {
    // ---- per child identity
    pub polls: [u8; NCH],
    pub done: [bool; NCH],
    pub drops: [u8; NCH],
    pub addr: [usize; NCH],
    pub slot_of: [u8; NCH],
    /// group of the child (unbounded collections), else 0
    pub group_of: [u8; NCH],
    /// polls of this child during the operation under test
    pub polls_in_call: [u8; NCH],
    // ---- per (group, slot): the waker of the slot was invoked / its occupant
    // was pushed since the occupant's last poll began
    // (bit masks: bit s of entry g = slot s of group g)
    pub needs_poll: [u8; 3],
    /// occupant pushed and never polled
    pub fresh: [u8; 3],
    // ---- counters
    pub child_wakes: usize,
    pub task_wakes: [usize; 2],
    pub task_clones: [usize; 2],
    pub task_drops: [usize; 2],
    pub total_child_polls: usize,
    /// fallible future answered Err
    pub failed: [bool; NCH],
    /// merge sources: next sequence number, last answer, item budget
    pub seq: [u8; NCH],
    pub last_answer: [u8; NCH],
    pub items_left: u8,
    /// upstream of the adapters
    pub up_ended: bool,
    pub up_polls: usize,
    pub up_last: u8,
    pub up_allow_err: bool,
    pub up_remaining: usize,
    pub up_pulled: usize,
    pub up_next_id: u8,
    pub up_hint_lo: usize,
    pub up_hint_hi: usize,
    pub up_errs: usize,
    pub up_waker_task: u8,
    /// output tokens dropped / created (C06)
    pub tok_drops: [u8; NCH],
    pub tok_made: [u8; NCH],
    // ---- decisions allowed to scripted children
    pub selfwake_left: u8,
    pub allow_retain: bool,
    pub allow_ready: bool,
    /// environment events still allowed at sched points
    pub env_budget: u8,
    pub env_inflight_ok: bool,
    pub env_fired: u8,
}

pub static mut G: Ghost = Ghost::new();

impl Ghost {
    pub const fn new() -> Self {
        Ghost {
            polls: [0; NCH],
            done: [false; NCH],
            drops: [0; NCH],
            addr: [0; NCH],
            slot_of: [NOSLOT; NCH],
            group_of: [0; NCH],
            polls_in_call: [0; NCH],
            needs_poll: [0; 3],
            fresh: [0; 3],
            child_wakes: 0,
            task_wakes: [0; 2],
            task_clones: [0; 2],
            task_drops: [0; 2],
            total_child_polls: 0,
            failed: [false; NCH],
            seq: [0; NCH],
            last_answer: [9; NCH],
            items_left: 0,
            up_ended: false,
            up_polls: 0,
            up_last: 9,
            up_allow_err: false,
            up_remaining: 0,
            up_pulled: 0,
            up_next_id: 0,
            up_hint_lo: 0,
            up_hint_hi: 0,
            up_errs: 0,
            up_waker_task: 0,
            tok_drops: [0; NCH],
            tok_made: [0; NCH],
            selfwake_left: 0,
            allow_retain: false,
            allow_ready: true,
            env_budget: 0,
            env_inflight_ok: false,
            env_fired: 0,
        }
    }
}

impl Ghost {
    pub fn needs(&self, group: usize, slot: usize) -> bool {
        (self.needs_poll[group] >> slot) & 1 == 1
    }
    pub fn is_fresh(&self, group: usize, slot: usize) -> bool {
        (self.fresh[group] >> slot) & 1 == 1
    }
    pub fn set_needs(&mut self, group: usize, slot: usize, v: bool) {
        if v {
            self.needs_poll[group] |= 1 << slot;
        } else {
            self.needs_poll[group] &= !(1 << slot);
        }
    }
    pub fn set_fresh(&mut self, group: usize, slot: usize, v: bool) {
        if v {
            self.fresh[group] |= 1 << slot;
        } else {
            self.fresh[group] &= !(1 << slot);
        }
    }
}

pub fn g() -> &'static mut Ghost {
    unsafe { &mut G }
}

pub fn reset() {
    unsafe {
        G = Ghost::new();
        HANDLES = [None, None];
        HSLOT = [(0, NOSLOT); NH];
        HACTIVE = [true; NH];
        CHILD_DEPTH = 0;
        ALLOC_TRACK = false;
        ALLOCS = 0;
    }
    #[cfg(futures_buffered_verif)]
    {
        futures_buffered::verif::set_sched(None);
        futures_buffered::verif::probe_reset();
        #[cfg(futures_buffered_verif_model)]
        futures_buffered::verif::model_waker::reset();
    }
}

pub fn task_wakes_total() -> usize {
    g().task_wakes[0] + g().task_wakes[1]
}

/// a child waker of (group, slot) was invoked by somebody
pub fn note_child_wake(group: u8, slot: u8) {
    let gh = g();
    gh.child_wakes += 1;
    if (slot as usize) < MAXS && (group as usize) < 3 {
        gh.needs_poll[group as usize] |= 1 << slot;
    }
}

// ------------------------------------------------------------------ task wakers

static TASK_ID: [u8; 2] = [0, 1];

static TASK_VTABLE: RawWakerVTable = RawWakerVTable::new(t_clone, t_wake, t_wake_by_ref, t_drop);

fn task_index(data: *const ()) -> usize {
    if core::ptr::eq(data.cast::<u8>(), &TASK_ID[0]) {
        0
    } else {
        1
    }
}

unsafe fn t_clone(data: *const ()) -> RawWaker {
    g().task_clones[task_index(data)] += 1;
    RawWaker::new(data, &TASK_VTABLE)
}
unsafe fn t_wake(data: *const ()) {
    unsafe {
        t_wake_by_ref(data);
        t_drop(data);
    }
}
unsafe fn t_wake_by_ref(data: *const ()) {
    g().task_wakes[task_index(data)] += 1;
}
unsafe fn t_drop(data: *const ()) {
    g().task_drops[task_index(data)] += 1;
}

/// one of two distinguishable counting task wakers (`will_wake` is false across them)
pub fn task_waker(id: usize) -> Waker {
    g().task_clones[id] += 1;
    unsafe {
        Waker::from_raw(RawWaker::new(
            (&TASK_ID[id] as *const u8).cast(),
            &TASK_VTABLE,
        ))
    }
}

pub fn is_task(w: &Waker) -> bool {
    core::ptr::eq(w.vtable(), &TASK_VTABLE)
}

// ------------------------------------------------------- retained child wakers

pub static mut HANDLES: [Option<Waker>; NH] = [None, None];
/// (group, slot) each handle belongs to
pub static mut HSLOT: [(u8, u8); NH] = [(0, NOSLOT); NH];

pub fn retain(w: &Waker, group: u8, slot: u8) {
    unsafe {
        let mut h = 0;
        while h < NH {
            if HANDLES[h].is_none() {
                HANDLES[h] = Some(w.clone());
                HSLOT[h] = (group, slot);
                return;
            }
            h += 1;
        }
    }
}

pub fn install_handle(h: usize, w: Waker, group: u8, slot: u8) {
    unsafe {
        HANDLES[h] = Some(w);
        HSLOT[h] = (group, slot);
    }
}

pub static mut HACTIVE: [bool; NH] = [true; NH];

pub fn set_handle_active(h: usize, a: bool) {
    unsafe { HACTIVE[h] = a }
}

pub fn handle_present(h: usize) -> bool {
    unsafe { HANDLES[h].is_some() }
}

/// the environment invokes retained handle `h` (wake_by_ref)
pub fn env_fire(h: usize) {
    unsafe {
        if !HACTIVE[h] {
            return;
        }
        if let Some(w) = &HANDLES[h] {
            let (gr, s) = HSLOT[h];
            note_child_wake(gr, s);
            w.wake_by_ref();
        }
    }
}

/// first half of a wake on another thread (model build only)
#[cfg(futures_buffered_verif_model)]
pub fn env_begin(h: usize) {
    unsafe {
        if !HACTIVE[h] {
            return;
        }
        if let Some(w) = &HANDLES[h] {
            let (gr, s) = HSLOT[h];
            note_child_wake(gr, s);
            futures_buffered::verif::model_waker::wake_begin(w);
        }
    }
}
#[cfg(futures_buffered_verif_model)]
pub fn env_finish(h: usize) {
    unsafe {
        if !HACTIVE[h] {
            return;
        }
        if let Some(w) = &HANDLES[h] {
            futures_buffered::verif::model_waker::wake_finish(w);
        }
    }
}

pub fn env_drop_handle(h: usize) {
    unsafe {
        HANDLES[h] = None;
    }
}

pub fn drop_all_handles() {
    let mut h = 0;
    while h < NH {
        env_drop_handle(h);
        h += 1;
    }
}

/// callback installed at the `WakerList` operation boundaries
pub fn sched_cb(_k: u8) {
    let gh = g();
    if gh.env_budget == 0 {
        return;
    }
    // 0: nothing; 1,2: fire handle 0/1; 3,4: begin handle 0/1; 5,6: finish handle 0/1
    let n = if gh.env_inflight_ok { 7 } else { 3 };
    let e = nd::below(n);
    if e == 0 {
        return;
    }
    gh.env_budget -= 1;
    gh.env_fired += 1;
    match e {
        1 => env_fire(0),
        2 => env_fire(1),
        #[cfg(futures_buffered_verif_model)]
        3 => env_begin(0),
        #[cfg(futures_buffered_verif_model)]
        4 => env_begin(1),
        #[cfg(futures_buffered_verif_model)]
        5 => env_finish(0),
        #[cfg(futures_buffered_verif_model)]
        6 => env_finish(1),
        _ => {}
    }
}

#[cfg(futures_buffered_verif)]
pub fn enable_env(budget: u8, inflight_ok: bool) {
    g().env_budget = budget;
    g().env_inflight_ok = inflight_ok;
    futures_buffered::verif::set_sched(Some(sched_cb));
}

// --------------------------------------------------------------- Kani stubs
//
// Every `Waker::{wake, wake_by_ref, clone, drop}` is an indirect call through
// the vtable; CBMC's function-pointer removal turns each into a switch over
// every function of that signature, and the child entries call back into
// `Waker` (notify -> task waker).  The stubs dispatch explicitly; the concrete
// depth counter cuts the (impossible) "child op inside a child op" recursion.

pub static mut CHILD_DEPTH: u8 = 0;

#[cfg(all(kani, futures_buffered_verif_model))]
mod stubs {
    use super::*;
    use futures_buffered::verif::model_waker as mw;

    fn enter() {
        unsafe {
            if CHILD_DEPTH > 0 {
                // a child-waker op never runs inside another child-waker op
                assert!(false, "STUB:nested child waker op");
                kani::assume(false);
            }
            CHILD_DEPTH += 1;
        }
    }
    fn leave() {
        unsafe { CHILD_DEPTH -= 1 }
    }

    /// the list a non-task waker belongs to; the vtable address is concrete,
    /// so symex resolves this without the solver
    fn list(w: &Waker) -> usize {
        match mw::list_of(w) {
            Some(l) => l,
            None => {
                assert!(false, "STUB:waker is neither a task waker nor a model child waker");
                kani::assume(false);
                0
            }
        }
    }

    pub fn wake_by_ref(w: &Waker) {
        if is_task(w) {
            unsafe { t_wake_by_ref(w.data()) }
        } else {
            let l = list(w);
            enter();
            mw::wake_by_ref(l, w.data());
            leave();
        }
    }

    pub fn wake(w: Waker) {
        let w = ManuallyDrop::new(w);
        if is_task(&w) {
            unsafe { t_wake(w.data()) }
        } else {
            let l = list(&w);
            enter();
            mw::wake(l, w.data());
            leave();
        }
    }

    pub fn clone(w: &Waker) -> Waker {
        if is_task(w) {
            unsafe { Waker::from_raw(t_clone(w.data())) }
        } else {
            let l = list(w);
            unsafe { Waker::from_raw(mw::clone(l, w.data())) }
        }
    }

    pub fn drop(w: &mut Waker) {
        if is_task(w) {
            unsafe { t_drop(w.data()) }
        } else {
            let l = list(w);
            enter();
            mw::drop(l, w.data());
            leave();
        }
    }
}
#[cfg(all(kani, futures_buffered_verif_model))]
pub use stubs::{clone as stub_clone, drop as stub_drop, wake as stub_wake, wake_by_ref as stub_wake_by_ref};

/// Layer W (real `waker_list.rs`): the child entries are reached through the
/// real vtable, read via a `#[repr(C)]` mirror of `RawWakerVTable` (its field
/// order is checked by the `vt_mirror_selftest` harness).
#[cfg(all(kani, not(futures_buffered_verif_model)))]
mod stubs_real {
    use super::*;

    #[repr(C)]
    pub struct VtMirror {
        pub clone: unsafe fn(*const ()) -> RawWaker,
        pub wake: unsafe fn(*const ()),
        pub wake_by_ref: unsafe fn(*const ()),
        pub drop: unsafe fn(*const ()),
    }

    pub fn mirror(w: &Waker) -> &'static VtMirror {
        unsafe { &*(w.vtable() as *const RawWakerVTable as *const VtMirror) }
    }

    fn enter() {
        unsafe {
            if CHILD_DEPTH > 0 {
                assert!(false, "STUB:nested child waker op");
                kani::assume(false);
            }
            CHILD_DEPTH += 1;
        }
    }
    fn leave() {
        unsafe { CHILD_DEPTH -= 1 }
    }

    pub fn wake_by_ref(w: &Waker) {
        if is_task(w) {
            unsafe { t_wake_by_ref(w.data()) }
        } else {
            enter();
            unsafe { (mirror(w).wake_by_ref)(w.data()) };
            leave();
        }
    }
    pub fn wake(w: Waker) {
        let w = ManuallyDrop::new(w);
        if is_task(&w) {
            unsafe { t_wake(w.data()) }
        } else {
            enter();
            unsafe { (mirror(&w).wake)(w.data()) };
            leave();
        }
    }
    pub fn clone(w: &Waker) -> Waker {
        if is_task(w) {
            unsafe { Waker::from_raw(t_clone(w.data())) }
        } else {
            unsafe { Waker::from_raw((mirror(w).clone)(w.data())) }
        }
    }
    pub fn drop(w: &mut Waker) {
        if is_task(w) {
            unsafe { t_drop(w.data()) }
        } else {
            enter();
            unsafe { (mirror(w).drop)(w.data()) };
            leave();
        }
    }

    /// the mirror reads the four entries in the order clone, wake, wake_by_ref, drop
    pub fn selftest() {
        let w = task_waker(0);
        let m = mirror(&w);
        assert!(m.clone as usize == t_clone as usize, "STUB:vtable mirror (clone)");
        assert!(m.wake as usize == t_wake as usize, "STUB:vtable mirror (wake)");
        assert!(m.wake_by_ref as usize == t_wake_by_ref as usize, "STUB:vtable mirror (wake_by_ref)");
        assert!(m.drop as usize == t_drop as usize, "STUB:vtable mirror (drop)");
        core::mem::forget(w);
    }
}
#[cfg(all(kani, not(futures_buffered_verif_model)))]
pub use stubs_real::{clone as stub_clone, drop as stub_drop, selftest as vt_mirror_selftest, wake as stub_wake, wake_by_ref as stub_wake_by_ref};

#[allow(unused)]
fn _keep(_: ManuallyDrop<u8>) {}

// --------------------------------------------------------- allocation counting
//
// C18: calls to the global allocator made while control is inside the crate.
// Under Kani `alloc::alloc::{alloc, realloc_nonnull}` are stubbed by counting
// versions; natively the replayer installs a counting `#[global_allocator]`.
// The reference model of `waker_list` reports its (one) block allocation per
// list through `verif::probe_counts`, as the real list does.

pub static mut ALLOC_TRACK: bool = false;
/// natively: remember the layout of every block allocated from now on
pub static mut ALLOC_TRACK_LAYOUTS: bool = false;

pub fn track_layouts(on: bool) {
    unsafe { ALLOC_TRACK_LAYOUTS = on }
}

/// natively: a block was released with another layout than it was allocated
/// with (under Kani its allocator model asserts this itself)
pub fn layout_mismatch() -> bool {
    #[cfg(not(kani))]
    {
        unsafe { counting_alloc::LAYOUT_MISMATCH }
    }
    #[cfg(kani)]
    {
        false
    }
}
pub static mut ALLOCS: usize = 0;

pub fn alloc_track(on: bool) {
    unsafe { ALLOC_TRACK = on }
}

/// allocator calls observed while tracking was on (+ waker-list blocks)
pub fn allocs() -> usize {
    let lists = {
        #[cfg(futures_buffered_verif)]
        {
            futures_buffered::verif::probe_counts().0
        }
        #[cfg(not(futures_buffered_verif))]
        {
            0
        }
    };
    unsafe { ALLOCS + lists }
}

pub fn note_alloc() {
    unsafe {
        if ALLOC_TRACK {
            ALLOCS += 1;
        }
    }
}

#[cfg(kani)]
pub mod alloc_stubs {
    use core::alloc::Layout;
    use core::ptr::NonNull;

    /// counting replacement of `alloc::alloc::alloc` (memory comes zeroed: a
    /// refinement of "uninitialised" that no harness observes)
    pub unsafe fn alloc(layout: Layout) -> *mut u8 {
        super::note_alloc();
        unsafe { std::alloc::alloc_zeroed(layout) }
    }

    /// counting replacement of `alloc::alloc::realloc_nonnull`
    pub unsafe fn realloc_nonnull(ptr: NonNull<u8>, layout: Layout, new_size: usize) -> *mut u8 {
        super::note_alloc();
        unsafe {
            let new = std::alloc::alloc_zeroed(Layout::from_size_align_unchecked(new_size, layout.align()));
            let n = if layout.size() < new_size { layout.size() } else { new_size };
            core::ptr::copy_nonoverlapping(ptr.as_ptr(), new, n);
            std::alloc::dealloc(ptr.as_ptr(), layout);
            new
        }
    }
}

#[cfg(not(kani))]
pub mod counting_alloc {
    use std::alloc::{GlobalAlloc, Layout, System};
    pub struct Counting;

    // layouts of the blocks allocated while tracking is on: a block released
    // with another layout than it was allocated with is undefined behaviour that
    // the system allocator does not notice (C03)
    const NB: usize = 64;
    static mut BLOCKS: [(usize, usize, usize); NB] = [(0, 0, 0); NB];
    pub static mut LAYOUT_MISMATCH: bool = false;

    #[allow(static_mut_refs)]
    fn remember(p: *mut u8, l: Layout) {
        unsafe {
            if !super::ALLOC_TRACK_LAYOUTS || p.is_null() {
                return;
            }
            let mut i = 0;
            while i < NB {
                if BLOCKS[i].0 == 0 {
                    BLOCKS[i] = (p as usize, l.size(), l.align());
                    return;
                }
                i += 1;
            }
        }
    }
    #[allow(static_mut_refs)]
    fn forget(p: *mut u8, l: Layout) {
        unsafe {
            let mut i = 0;
            while i < NB {
                if BLOCKS[i].0 == p as usize {
                    if BLOCKS[i].1 != l.size() || BLOCKS[i].2 != l.align() {
                        LAYOUT_MISMATCH = true;
                    }
                    BLOCKS[i] = (0, 0, 0);
                    return;
                }
                i += 1;
            }
        }
    }

    unsafe impl GlobalAlloc for Counting {
        unsafe fn alloc(&self, l: Layout) -> *mut u8 {
            super::note_alloc();
            let p = unsafe { System.alloc(l) };
            remember(p, l);
            p
        }
        unsafe fn dealloc(&self, p: *mut u8, l: Layout) {
            forget(p, l);
            unsafe { System.dealloc(p, l) }
        }
        unsafe fn alloc_zeroed(&self, l: Layout) -> *mut u8 {
            super::note_alloc();
            unsafe { System.alloc_zeroed(l) }
        }
        unsafe fn realloc(&self, p: *mut u8, l: Layout, n: usize) -> *mut u8 {
            super::note_alloc();
            unsafe { System.realloc(p, l, n) }
        }
    }
}
