//! Step scenarios on the buffered adapters: `buffered_unordered`,
//! `try_buffered_unordered`, `for_each_concurrent` (over a
//! `FuturesUnorderedBounded`) and `buffered_ordered`, `try_buffered_ordered`
//! (over a `FuturesOrderedBounded`).
//!
//! Pre-state: upstream present (with an arbitrary number of remaining items
//! and an honest size_hint) or already gone; an arbitrary INV state of the
//! in-flight collection of capacity n. ONE poll of the adapter.
#![allow(static_mut_refs)]

use crate::child::{EFut, Fut, TryUp, UFut, Up};
use crate::fob::{self, OCfg};
use crate::fub::{self, Pre};
use crate::gh::{self, g, MAXS};
use crate::nd;
use crate::{vassert, vcover};
use core::future::Future;
use core::pin::Pin;
use core::task::{Context, Poll};
use futures_buffered::verif as v;
use futures_buffered::verif::ForEachConcurrent;
use futures_buffered::{BufferUnordered, BufferedOrdered, BufferedStreamExt, TryBufferUnordered, TryBufferedOrdered};
use futures_core::Stream;

pub struct ACfg {
    pub n: usize,
    pub selfwakes: u8,
    /// parked outputs in the pre-state of the ordered adapters
    pub parked: usize,
    /// upstream items still to come in the pre-state: 0..=max_remaining
    pub max_remaining: u8,
}

#[derive(Clone, Copy, PartialEq)]
pub enum Out {
    Item(u8),
    ErrItem(u8),
    End,
    Pending,
}

/// upstream part of the pre-state: present or gone, remaining items, honest hint
pub fn gen_upstream(n: usize, allow_err: bool, max_remaining: u8) -> bool {
    let gh = g();
    let present = nd::flag();
    gh.up_allow_err = allow_err;
    gh.up_next_id = n as u8;
    if present {
        gh.up_remaining = nd::below(max_remaining + 1) as usize;
        gh.up_hint_lo = nd::below(4) as usize;
        gh.up_hint_hi = nd::below(8) as usize;
        nd::assume(gh.up_hint_lo <= gh.up_remaining && gh.up_remaining <= gh.up_hint_hi, "up:hint honest");
    } else {
        gh.up_ended = true;
        gh.up_remaining = 0;
    }
    present
}

/// the items still to be yielded: upstream remainder + in flight (+ parked)
fn remaining(inflight: usize) -> usize {
    g().up_remaining + inflight
}

fn check_hint(h: (usize, Option<usize>), inflight: usize) {
    let r = remaining(inflight);
    vassert!(h.0 <= r, "C17:size_hint lower bound exceeds the items still to come");
    if let Some(hi) = h.1 {
        vassert!(r <= hi, "C17:size_hint upper bound below the items still to come");
    }
}

struct PreA {
    p: Pre,
    present: bool,
    pulled0: usize,
}

/// obligations common to the stream adapters, after one poll
fn check_common(c: &ACfg, a: &PreA, out: Out, t: usize, woken_t: bool, s: &v::Snap, present2: bool, len2: usize, len0: usize, try_: bool) {
    let gh = g();
    let woken_other = gh.task_wakes[1 - t] > 0;
    let occ = fub::snap_occ_pub(s);
    let pulled = gh.up_pulled - a.pulled0;
    let polled_up = gh.up_polls > 0;
    // C10: upstream is dropped exactly when it reported its end
    vassert!(present2 == (a.present && !gh.up_ended), "C10:upstream kept after its end, or discarded before it ended");
    vassert!(present2 || !a.present || gh.up_ended, "C09:upstream discarded although it has not ended: its remaining items are never started (not work-conserving)");
    vassert!(a.present || gh.up_polls == 0, "C10:upstream polled although it is gone");
    // C09: never more than n unfinished futures
    vassert!(s.filled <= c.n, "C09:more than n futures in flight");
    // C10: every pulled future is still held, or completed in this call; none dropped
    let mut id = c.n;
    while id < c.n + 3 {
        if id < gh.up_next_id as usize && id < gh::NCH {
            vassert!(gh.drops[id] == 0 || gh.done[id], "C10:a pulled future was dropped without completing");
        }
        id += 1;
    }
    let yielded = match out {
        Out::Item(_) | Out::ErrItem(_) => 1,
        _ => 0,
    };
    // C10/C11-style conservation: pulled items are in flight, parked or yielded
    vassert!(len2 + yielded == len0 + pulled, "C10:an upstream item was pulled twice, lost or invented");
    match out {
        Out::Item(x) => {
            let id = x as usize;
            vassert!(id < gh::NCH && gh.done[id], "C02:yielded an output no future produced");
            vcover!(true, "cover:item");
        }
        Out::ErrItem(e) => {
            vassert!(try_, "C10:error item from a non-try adapter");
            if e == 200 {
                // an upstream error: forwarded at once, in-flight futures untouched
                vassert!(gh.up_errs == 1 && gh.up_last == 3, "C10:upstream error invented or not returned by the call that pulled it");
                vcover!(s.filled > 0, "cover:upstream_err_keeps_inflight");
            } else {
                vassert!((e as usize) < gh::NCH && gh.failed[e as usize], "C02:yielded an error no future produced");
            }
        }
        Out::End => {
            vassert!(!present2 && len2 == 0, "C10:None while upstream is live or futures are in flight");
            vassert!(!try_ || gh.up_errs == 0, "C10:upstream error swallowed");
            vcover!(true, "cover:end");
        }
        Out::Pending => {
            vassert!(present2 || len2 > 0, "C10:Pending although upstream is exhausted and nothing is in flight");
            vassert!(!try_ || gh.up_errs == 0, "C10:upstream error swallowed");
            // C09: work-conserving
            vassert!(
                len2 >= c.n || !present2 || (polled_up && gh.up_last == 1),
                "C09:Pending with spare capacity although upstream was not asked (or had an item)"
            );
            // somebody will wake this task: a registered in-flight future, or upstream
            let inflight_armed = s.filled > 0 && (woken_t || s.registered);
            let upstream_armed = present2 && polled_up && gh.up_last == 1 && gh.up_waker_task == 1;
            vassert!(inflight_armed || upstream_armed, "C01:Pending and nobody holds the task waker");
            if !woken_t {
                let mut k = 0;
                while k < c.n {
                    if k < s.qlen {
                        vassert!(!occ[s.q[k].slot % MAXS], "C01:Pending with a queued future left un-polled, task not woken");
                    }
                    k += 1;
                }
            }
            // C14: upstream pending (it never wakes in this model), no child waker
            // invoked during the call: the adapter must not wake its own task
            if gh.child_wakes == 0 {
                vassert!(!woken_t && !woken_other, "C14:adapter woke its task although no child waker was invoked");
            }
            vcover!(true, "cover:pending");
        }
    }
    let _ = t;
}

fn mk_fut(id: u8) -> Fut {
    Fut::new(id)
}
fn mk_efut(id: u8) -> EFut {
    EFut::new(id)
}

/// buffered_unordered(n)
pub fn step_buffer_unordered(c: &ACfg) {
    gh::reset();
    let p = fub::gen_pre(c.n, false);
    fub::gen_ghost(&p, 0);
    let gh = g();
    let present = gen_upstream(c.n, false, c.max_remaining);
    let q = fub::build(&p, 0);
    let up = if present { Some(Up { mk: mk_fut as fn(u8) -> Fut }) } else { None };
    let mut a = BufferUnordered::verif_from_parts(up, q);
    gh.selfwake_left = c.selfwakes;
    let pre = PreA { p, present, pulled0: gh.up_pulled };
    check_hint(a.size_hint(), p.filled);
    let t = nd::below(2) as usize;
    let w = gh::task_waker(t);
    let wakes0 = gh.task_wakes;
    let mut cx = Context::from_waker(&w);
    let a0 = gh::allocs();
    gh::alloc_track(true);
    let r = unsafe { Pin::new_unchecked(&mut a) }.poll_next(&mut cx);
    gh::alloc_track(false);
    vassert!(gh::allocs() == a0, "C18:buffered adapter allocated during poll_next");
    let out = match r {
        Poll::Ready(Some(x)) => Out::Item(x),
        Poll::Ready(None) => Out::End,
        Poll::Pending => Out::Pending,
    };
    let woken_t = gh.task_wakes[t] > wakes0[t];
    let present2 = a.verif_stream_present();
    let s = fub::snap(a.verif_queue(), c.n, t);
    fub::check_inv_post(&s, 0, fub::M_INV);
    check_common(c, &pre, out, t, woken_t, &s, present2, s.filled, p.filled, false);
    check_hint(a.size_hint(), s.filled);
    core::mem::forget(a);
}

/// try_buffered_unordered(n)
pub fn step_try_buffer_unordered(c: &ACfg) {
    gh::reset();
    let p = fub::gen_pre(c.n, false);
    fub::gen_ghost(&p, 0);
    let gh = g();
    let present = gen_upstream(c.n, true, c.max_remaining);
    let q = fub::build_g(&p, 0, 0, mk_efut);
    let up = if present { Some(TryUp { mk: mk_efut as fn(u8) -> EFut }) } else { None };
    let mut a = TryBufferUnordered::verif_from_parts(up, q);
    gh.selfwake_left = c.selfwakes;
    let pre = PreA { p, present, pulled0: gh.up_pulled };
    check_hint(a.size_hint(), p.filled);
    let t = nd::below(2) as usize;
    let w = gh::task_waker(t);
    let wakes0 = gh.task_wakes;
    let mut cx = Context::from_waker(&w);
    let a0 = gh::allocs();
    gh::alloc_track(true);
    let r = unsafe { Pin::new_unchecked(&mut a) }.poll_next(&mut cx);
    gh::alloc_track(false);
    vassert!(gh::allocs() == a0, "C18:buffered adapter allocated during poll_next");
    let out = match r {
        Poll::Ready(Some(Ok(x))) => Out::Item(x),
        Poll::Ready(Some(Err(e))) => Out::ErrItem(e),
        Poll::Ready(None) => Out::End,
        Poll::Pending => Out::Pending,
    };
    let woken_t = gh.task_wakes[t] > wakes0[t];
    let present2 = a.verif_stream_present();
    let s = fub::snap(a.verif_queue(), c.n, t);
    fub::check_inv_post(&s, 0, fub::M_INV);
    // an upstream error item is not a future: it is yielded without entering the queue
    let len0 = p.filled;
    check_common(c, &pre, out, t, woken_t, &s, present2, s.filled, len0, true);
    check_hint(a.size_hint(), s.filled);
    vcover!(!present2 && s.filled > 0, "cover:upstream_gone_futures_in_flight");
    core::mem::forget(a);
}

/// for_each_concurrent(n, f)
pub fn step_for_each(c: &ACfg) {
    gh::reset();
    let p = fub::gen_pre(c.n, false);
    fub::gen_ghost(&p, 0);
    let gh = g();
    let present = gen_upstream(c.n, false, c.max_remaining);
    let q = fub::build_g(&p, 0, 0, UFut::new);
    fn ident(id: u8) -> u8 {
        id
    }
    let up = if present { Some(Up { mk: ident as fn(u8) -> u8 }) } else { None };
    let mut a = ForEachConcurrent::verif_from_parts(up, |id: u8| UFut::new(id), q);
    gh.selfwake_left = c.selfwakes;
    let pulled0 = gh.up_pulled;
    let t = nd::below(2) as usize;
    let w = gh::task_waker(t);
    let wakes0 = gh.task_wakes;
    let mut cx = Context::from_waker(&w);
    let a0 = gh::allocs();
    gh::alloc_track(true);
    let r = unsafe { Pin::new_unchecked(&mut a) }.poll(&mut cx);
    gh::alloc_track(false);
    vassert!(gh::allocs() == a0, "C18:for_each_concurrent allocated during poll");
    let woken_t = gh.task_wakes[t] > wakes0[t];
    let present2 = a.verif_stream_present();
    let s = fub::snap(a.verif_futures(), c.n, t);
    fub::check_inv_post(&s, 0, fub::M_INV);
    let pulled = gh.up_pulled - pulled0;
    vassert!(present2 == (present && !gh.up_ended), "C10:upstream kept after its end, or discarded before it ended");
    vassert!(present2 || !present || gh.up_ended, "C09:upstream discarded although it has not ended: its remaining items are never started (not work-conserving)");
    vassert!(present || gh.up_polls == 0, "C10:upstream polled although it is gone");
    vassert!(s.filled <= c.n || c.n == 0, "C09:more than n futures in flight");
    // every pulled item was turned into exactly one future which is held or finished
    let mut done_now = 0;
    let mut id = 0;
    while id < c.n + 3 && id < gh::NCH {
        if gh.done[id] && gh.polls_in_call[id] > 0 {
            done_now += 1;
            vassert!(gh.drops[id] == 1, "C05:finished future not dropped");
        } else if id >= c.n && id < gh.up_next_id as usize {
            vassert!(gh.drops[id] == 0, "C10:a pulled item's future was dropped without completing");
        }
        id += 1;
    }
    vassert!(s.filled + done_now == p.filled + pulled, "C10:an upstream item was lost, duplicated or invented");
    match r {
        Poll::Ready(()) => {
            vassert!(!present2 && s.filled == 0, "C10:completed while upstream is live or futures are in flight");
            vcover!(true, "cover:complete");
        }
        Poll::Pending => {
            vassert!(present2 || s.filled > 0, "C10:Pending although upstream is exhausted and nothing is in flight");
            let polled_up = gh.up_polls > 0;
            if c.n == 0 {
                vassert!(!present2 || polled_up, "C10:for_each_concurrent(0, f) - documented as 'no limit' - never asks upstream and stays Pending");
            } else {
                vassert!(
                    s.filled >= c.n || !present2 || (polled_up && gh.up_last == 1),
                    "C09:Pending with spare capacity although upstream was not asked (or had an item)"
                );
            }
            let inflight_armed = s.filled > 0 && (woken_t || s.registered);
            let upstream_armed = present2 && polled_up && gh.up_last == 1 && gh.up_waker_task == 1;
            vassert!(inflight_armed || upstream_armed, "C10:Pending and nobody holds the task waker (stuck forever)");
            if gh.child_wakes == 0 {
                vassert!(!woken_t && gh.task_wakes[1 - t] == wakes0[1 - t], "C14:adapter woke its task although no child waker was invoked");
            }
            vcover!(true, "cover:pending");
        }
    }
    core::mem::forget(a);
}

// ------------------------------------------------------------------ ordered

/// buffered_ordered(n) / try_buffered_ordered(n)
pub fn step_buffered_ordered(c: &ACfg, try_: bool) {
    step_buffered_ordered_q(c, try_, false)
}

/// `quiet_queue`: the ready queue of the in-flight collection is concretely empty
/// (no future is polled by the call): what the adapter does with upstream and
/// with parked outputs is then cheap to explore, also for code that polls the
/// collection more than once per call
pub fn step_buffered_ordered_q(c: &ACfg, try_: bool, quiet_queue: bool) {
    gh::reset();
    let oc = OCfg { cap: c.n, max_parked: c.parked, selfwakes: c.selfwakes };
    let o = if quiet_queue { fob::gen_opre_q0(&oc) } else { fob::gen_opre(&oc) };
    // C16 holds in the pre-state: at most n items pulled and not yet yielded
    nd::assume(o.len <= c.n, "C16:pre");
    let gh = g();
    let present = gen_upstream(c.n, try_, c.max_remaining);
    gh.selfwake_left = c.selfwakes;
    let pulled0 = gh.up_pulled;
    let t = nd::below(2) as usize;
    let w = gh::task_waker(t);
    let out;
    let len2;
    let present2;
    let hint0;
    let hint2;
    if try_ {
        let q = fob::build_g(&oc, &o, mk_efut);
        let up = if present { Some(TryUp { mk: mk_efut as fn(u8) -> EFut }) } else { None };
        let mut a = TryBufferedOrdered::verif_from_parts(up, q);
        hint0 = a.size_hint();
        let mut cx = Context::from_waker(&w);
        let r = unsafe { Pin::new_unchecked(&mut a) }.poll_next(&mut cx);
        out = match r {
            Poll::Ready(Some(Ok(x))) => Out::Item(x),
            Poll::Ready(Some(Err(e))) => Out::ErrItem(e),
            Poll::Ready(None) => Out::End,
            Poll::Pending => Out::Pending,
        };
        len2 = a.verif_queue().len();
        present2 = a.verif_stream_present();
        hint2 = a.size_hint();
        core::mem::forget(a);
    } else {
        let q = fob::build_g(&oc, &o, mk_fut);
        let up = if present { Some(Up { mk: mk_fut as fn(u8) -> Fut }) } else { None };
        let mut a = BufferedOrdered::verif_from_parts(up, q);
        hint0 = a.size_hint();
        let mut cx = Context::from_waker(&w);
        let r = unsafe { Pin::new_unchecked(&mut a) }.poll_next(&mut cx);
        out = match r {
            Poll::Ready(Some(x)) => Out::Item(x),
            Poll::Ready(None) => Out::End,
            Poll::Pending => Out::Pending,
        };
        len2 = a.verif_queue().len();
        present2 = a.verif_stream_present();
        hint2 = a.size_hint();
        core::mem::forget(a);
    }
    let pulled = gh.up_pulled - pulled0;
    let yielded = match out {
        Out::Item(_) | Out::ErrItem(_) => 1,
        _ => 0,
    };
    // (an upstream error item is yielded without entering the queue)
    vassert!(len2 + yielded == o.len + pulled, "C10:an upstream item was pulled twice, lost or invented");
    vassert!(len2 <= c.n, "C16:more than n items pulled and not yet yielded (no backpressure)");
    vassert!(present2 == (present && !gh.up_ended), "C10:upstream kept after its end, or discarded before it ended");
    vassert!(present2 || !present || gh.up_ended, "C09:upstream discarded although it has not ended: its remaining items are never started (not work-conserving)");
    // C17, before and after (the pre-state hint was taken before the poll)
    {
        let r0 = (gh.up_remaining + pulled) + o.len;
        vassert!(hint0.0 <= r0, "C17:size_hint lower bound exceeds the items still to come");
        if let Some(hi) = hint0.1 {
            vassert!(r0 <= hi || !present, "C17:size_hint upper bound below the items still to come");
            if !present {
                vassert!(o.len <= hi, "C17:size_hint upper bound below the items still to come");
            }
        }
    }
    check_hint(hint2, len2);
    match out {
        Out::Item(x) => {
            // queue order: the front element
            if x >= fob::PARK {
                vassert!(x == fob::PARK, "C04:yielded a parked output that is not at the front");
            } else if (x as usize) < c.n {
                vassert!(o.off[x as usize % MAXS] == 0, "C04:yielded an output out of upstream order");
            } else {
                vassert!(o.len == 0 && x as usize == c.n, "C04:yielded a freshly pulled future's output ahead of older ones");
            }
            vcover!(true, "cover:item");
        }
        Out::ErrItem(_) => {}
        Out::End => {
            vassert!(!present2 && len2 == 0, "C10:None while upstream is live or items are pending");
            vcover!(true, "cover:end");
        }
        Out::Pending => {
            vassert!(present2 || len2 > 0, "C10:Pending although upstream is exhausted and nothing is in flight");
            let polled_up = gh.up_polls > 0;
            vassert!(
                len2 >= c.n || !present2 || (polled_up && gh.up_last == 1),
                "C09:Pending with spare capacity although upstream was not asked (or had an item)"
            );
            vcover!(true, "cover:pending");
        }
    }
}

#[allow(unused)]
fn _t<S: BufferedStreamExt>(_: S) {}
#[allow(unused)]
fn _f<F: Future>(_: F) {}
