//! Constructors through the PUBLIC API (`new`, `from_iter`/`collect`, `extend`,
//! `with_capacity`): the fresh collection is in the state the step harnesses
//! start their induction from (INV holds, every future accepted is held and
//! marked ready in input order), and the observers agree.
#![allow(static_mut_refs)]

use crate::child::Fut;
use crate::fub;
use crate::gh::{self, g};
use crate::nd;
use crate::{vassert, vcover};
use core::pin::Pin;
use core::task::{Context, Poll};
use futures_buffered::verif as v;
use futures_buffered::{FuturesOrderedBounded, FuturesUnordered, FuturesUnorderedBounded, MergeBounded};
use futures_core::Stream;

/// `FuturesUnorderedBounded::from_iter` of n futures (n symbolic, <= 3)
pub fn fub_from_iter() {
    gh::reset();
    let gh = g();
    let n = nd::below(4) as usize;
    let mut f: FuturesUnorderedBounded<Fut> = (0..n as u8).map(Fut::new).collect();
    vassert!(f.capacity() == n && f.len() == n && f.is_empty() == (n == 0), "C15:from_iter: capacity/len differ from the number of futures collected");
    let s = fub::snap(&mut f, n, 0);
    // slot i holds input i (join_all relies on it), all marked ready in input order
    let mut i = 0;
    while i < 3 {
        if i < n {
            match v::fub_peek(&f, i) {
                Some(ch) => vassert!(ch.id as usize == i, "C04:from_iter: slot i does not hold input i"),
                None => vassert!(false, "C02:from_iter: a collected future is not held"),
            }
            vassert!(s.qlen == n && s.q[i].slot == i, "C01:from_iter: collected future not marked ready (in input order)");
        }
        i += 1;
    }
    vassert!(s.free_head == n && s.filled == n, "C02:from_iter: slot map not full/consistent");
    // a full collection refuses a push and returns the same future
    if let Err(back) = f.try_push(Fut::new(5)) {
        vassert!(back.id == 5 && gh.drops[5] == 0, "C15:refused try_push did not return the same future");
        core::mem::forget(back);
    } else {
        vassert!(false, "C15:push accepted although the collected collection is full");
    }
    vcover!(n == 3, "cover:three");
    vcover!(n == 0, "cover:zero");
    core::mem::forget(f);
}

/// `FuturesOrderedBounded::from_iter`: positions 0..n in input order; first poll yields input 0 first
pub fn fob_from_iter() {
    gh::reset();
    let gh = g();
    gh.selfwake_left = 0;
    let mut f: FuturesOrderedBounded<Fut> = (0..2u8).map(Fut::new).collect();
    gh.slot_of[0] = 0;
    gh.slot_of[1] = 1;
    vassert!(f.len() == 2 && !f.is_empty(), "C15:from_iter: len differs from the number of futures collected");
    let (inc, out) = f.verif_counters();
    vassert!(out == 0 && inc == 2, "C04:from_iter: position counters do not delimit the collected futures");
    let mut i = 0;
    while i < 2 {
        match v::fob_peek(&f, i) {
            Some((ch, pos)) => vassert!(ch.id as usize == i && pos == i, "C04:from_iter: future i does not sit at queue place i"),
            None => vassert!(false, "C02:from_iter: a collected future is not held"),
        }
        i += 1;
    }
    let w = gh::task_waker(0);
    let mut cx = Context::from_waker(&w);
    if let Poll::Ready(Some(x)) = Pin::new(&mut f).poll_next(&mut cx) {
        vassert!(x == 0, "C04:first output yielded is not that of the first input");
        vcover!(true, "cover:first_yield");
    }
    core::mem::forget(f);
}

/// `FuturesUnordered`: new / with_capacity(n) / from_iter / extend-like pushes keep INV_unbounded
pub fn fu_ctor(n: usize) {
    gh::reset();
    let mut f: FuturesUnordered<Fut> = FuturesUnordered::with_capacity(n);
    vassert!(f.len() == 0 && f.is_empty(), "C15:fresh unbounded collection not empty");
    vassert!(f.capacity() >= n, "C15:with_capacity(n).capacity() < n");
    {
        let (groups, rem, cursor) = f.verif_parts();
        vassert!(rem == 0 && cursor == 0 && groups.len() <= 1, "C15:with_capacity built an inconsistent group list");
        // growth doubles the last group's capacity: a group of capacity 0 can never grow
        vassert!(groups.len() == 0 || groups[0].capacity() >= n && groups[0].capacity() > 0, "C15:with_capacity built a group of capacity 0 (pushes can never be accepted)");
    }
    let w = gh::task_waker(0);
    let mut cx = Context::from_waker(&w);
    vassert!(matches!(Pin::new(&mut f).poll_next(&mut cx), Poll::Ready(None)), "C02:empty collection did not answer Ready(None)");
    vassert!(g().task_wakes[0] == 0, "C14:polling an empty collection woke the task");
    // the unbounded collection accepts every push, whatever capacity it was built with
    // (a panic inside /repo is a violation: the harness is registered panic_is_violation)
    f.push(Fut::new(0));
    vassert!(f.len() == 1 && !f.is_empty() && f.capacity() >= 1, "C15:push into a fresh unbounded collection not accepted");
    vcover!(n == 0, "cover:cap0");
    core::mem::forget(f);
}

/// `MergeBounded::from_iter`: every source held and marked ready
pub fn mb_from_iter() {
    use crate::child::Src;
    gh::reset();
    let mut m: MergeBounded<Src> = (0..2u8).map(|id| Src { id }).collect();
    let s = fub::snap(m.verif_inner(), 2, 0);
    vassert!(s.filled == 2 && s.qlen == 2 && s.q[0].slot == 0 && s.q[1].slot == 1, "C11:from_iter: a source is not held or not marked ready");
    core::mem::forget(m);
}
