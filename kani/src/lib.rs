//! /verif harness crate: Kani proof harnesses (cfg(kani)) and the same
//! scenarios replayed natively from a tape (bin/replay.rs).
#![allow(static_mut_refs, clippy::all)]

pub mod nd;
#[cfg(futures_buffered_verif)]
pub mod gh;
#[cfg(futures_buffered_verif)]
pub mod child;
#[cfg(futures_buffered_verif)]
pub mod fub;
#[cfg(futures_buffered_verif)]
pub mod fo;
#[cfg(futures_buffered_verif)]
pub mod ctor;
#[cfg(futures_buffered_verif)]
pub mod fob;
#[cfg(futures_buffered_verif)]
pub mod ad;
#[cfg(futures_buffered_verif)]
pub mod fu;
#[cfg(futures_buffered_verif)]
pub mod ja;
#[cfg(futures_buffered_verif)]
pub mod mg;
#[cfg(futures_buffered_verif)]
pub mod reach;
#[cfg(futures_buffered_verif)]
pub mod sm;
#[cfg(futures_buffered_verif)]
pub mod wl;
#[cfg(futures_buffered_verif)]
pub mod harnesses;
