extern crate alloc;
use alloc::collections::BinaryHeap;
use core::cmp::Ordering;
use core::future::Future;
pub struct W<T> { pub data: T, pub index: usize }
impl<T> PartialEq for W<T> { fn eq(&self, o: &Self) -> bool { self.index == o.index } }
impl<T> Eq for W<T> {}
impl<T> PartialOrd for W<T> { fn partial_cmp(&self, o: &Self) -> Option<Ordering> { Some(self.cmp(o)) } }
impl<T> Ord for W<T> { fn cmp(&self, o: &Self) -> Ordering { o.index.cmp(&self.index) } }
pub struct S<T: Future> { a: [usize; 5], h: BinaryHeap<W<T::Output>>, out: usize }
impl<T: Future> S<T> {
    pub fn new(cap: usize) -> Self { S { a: [0; 5], h: BinaryHeap::with_capacity(cap - 1), out: 0 } }
    pub fn probe(&mut self) -> (usize, usize) {
        let taken = core::mem::take(&mut self.h);
        let cp = self.h.capacity();
        let v = taken.into_vec();
        let c2 = v.capacity();
        self.h = v.into();
        (cp, c2)
    }
}
#[cfg_attr(kani, kani::proof)]
pub fn x_probe3() {
    let mut s: S<crate::child::Fut> = S::new(2);
    let (a, b) = s.probe();
    assert!(a == 0, "X:a");
    assert!(b == 1, "X:b");
    core::mem::forget(s);
}
