//! Scripted children. Every poll takes symbolic decisions; the children carry
//! the monitors that need the child's point of view:
//!   C05  no poll after completion
//!   C08  same address at every poll and at drop
//!   C06  dropped exactly once
#![allow(static_mut_refs)]

use crate::gh::{self, g, NOSLOT};
use crate::nd;
use crate::vassert;
use core::future::Future;
use core::marker::PhantomPinned;
use core::pin::Pin;
use core::task::{Context, Poll};

/// A scripted `!Unpin` future with output = its identity.
pub struct Fut {
    pub id: u8,
    _pin: PhantomPinned,
}

impl Fut {
    pub fn new(id: u8) -> Self {
        Fut {
            id,
            _pin: PhantomPinned,
        }
    }
}

fn check_addr(id: usize, a: usize) {
    let gh = g();
    if gh.addr[id] == 0 {
        gh.addr[id] = a;
    } else {
        vassert!(gh.addr[id] == a, "C08:child moved after its first poll");
    }
}

/// what a scripted child does in one poll
pub struct Decision {
    pub ready: bool,
    pub selfwake: bool,
    pub retain: bool,
}

pub fn decide() -> Decision {
    let gh = g();
    let d = nd::below(8);
    let dec = Decision {
        ready: d & 1 != 0,
        selfwake: d & 2 != 0,
        retain: d & 4 != 0,
    };
    nd::assume(gh.allow_ready || !dec.ready, "decide:ready");
    nd::assume(gh.selfwake_left > 0 || !dec.selfwake, "decide:selfwake");
    if dec.selfwake {
        gh.selfwake_left -= 1;
    }
    nd::assume(gh.allow_retain || !dec.retain, "decide:retain");
    dec
}

/// bookkeeping common to futures and streams at poll entry
pub fn on_poll_entry(id: usize, addr: usize) {
    let gh = g();
    vassert!(!gh.done[id], "C05:child polled after completion");
    vassert!(gh.drops[id] == 0, "C06:child polled after drop");
    check_addr(id, addr);
    gh.polls[id] = gh.polls[id].wrapping_add(1);
    gh.polls_in_call[id] = gh.polls_in_call[id].wrapping_add(1);
    gh.total_child_polls += 1;
    let s = gh.slot_of[id];
    let gr = gh.group_of[id] as usize;
    if s != NOSLOT && (s as usize) < gh::MAXS && gr < 3 {
        gh.needs_poll[gr] &= !(1 << s);
        gh.fresh[gr] &= !(1 << s);
    }
}

pub fn apply_wake_decisions(id: usize, d: &Decision, cx: &mut Context<'_>) {
    let gh = g();
    let s = gh.slot_of[id];
    let gr = gh.group_of[id];
    if d.selfwake {
        gh::note_child_wake(gr, s);
        cx.waker().wake_by_ref();
    }
    // `allow_retain` is concrete per harness: symex prunes the branch
    if gh.allow_retain && d.retain {
        gh::retain(cx.waker(), gr, s);
    }
}

impl Future for Fut {
    type Output = u8;
    fn poll(self: Pin<&mut Self>, cx: &mut Context<'_>) -> Poll<u8> {
        let id = self.id as usize;
        on_poll_entry(id, &*self as *const Fut as usize);
        let d = decide();
        apply_wake_decisions(id, &d, cx);
        if d.ready {
            g().done[id] = true;
            Poll::Ready(self.id)
        } else {
            Poll::Pending
        }
    }
}

impl Drop for Fut {
    fn drop(&mut self) {
        let id = self.id as usize;
        let gh = g();
        gh.drops[id] = gh.drops[id].wrapping_add(1);
        vassert!(gh.drops[id] == 1, "C06:child dropped twice");
        if gh.addr[id] != 0 {
            vassert!(
                gh.addr[id] == self as *const Fut as usize,
                "C08:child dropped at another address"
            );
        }
    }
}
