//! Scripted children. Every poll takes symbolic decisions; the children carry
//! the monitors that need the child's point of view:
//!   C05  no poll after completion
//!   C08  same address at every poll and at drop
//!   C06  dropped exactly once
#![allow(static_mut_refs)]

use crate::gh::{self, g, NOSLOT};
use crate::nd;
use crate::vassert;
use core::future::Future;
use core::marker::PhantomPinned;
use core::pin::Pin;
use core::task::{Context, Poll};

/// A scripted `!Unpin` future with output = its identity.
pub struct Fut {
    pub id: u8,
    _pin: PhantomPinned,
}

impl Fut {
    pub fn new(id: u8) -> Self {
        Fut {
            id,
            _pin: PhantomPinned,
        }
    }
}

fn check_addr(id: usize, a: usize) {
    let gh = g();
    if gh.addr[id] == 0 {
        gh.addr[id] = a;
    } else {
        vassert!(gh.addr[id] == a, "C08:child moved after its first poll");
    }
}

/// what a scripted child does in one poll
pub struct Decision {
    pub ready: bool,
    pub selfwake: bool,
    pub retain: bool,
}

pub fn decide() -> Decision {
    let gh = g();
    let d = nd::below(8);
    let dec = Decision {
        ready: d & 1 != 0,
        selfwake: d & 2 != 0,
        retain: d & 4 != 0,
    };
    nd::assume(gh.allow_ready || !dec.ready, "decide:ready");
    nd::assume(gh.selfwake_left > 0 || !dec.selfwake, "decide:selfwake");
    if dec.selfwake {
        gh.selfwake_left -= 1;
    }
    nd::assume(gh.allow_retain || !dec.retain, "decide:retain");
    dec
}

/// bookkeeping common to futures and streams at poll entry
pub fn on_poll_entry(id: usize, addr: usize) {
    let gh = g();
    vassert!(!gh.done[id], "C05:child polled after completion");
    vassert!(gh.drops[id] == 0, "C06:child polled after drop");
    check_addr(id, addr);
    gh.polls[id] = gh.polls[id].wrapping_add(1);
    gh.polls_in_call[id] = gh.polls_in_call[id].wrapping_add(1);
    gh.total_child_polls += 1;
    let s = gh.slot_of[id];
    let gr = gh.group_of[id] as usize;
    if s != NOSLOT && (s as usize) < gh::MAXS && gr < 3 {
        gh.needs_poll[gr] &= !(1 << s);
        gh.fresh[gr] &= !(1 << s);
    }
}

pub fn apply_wake_decisions(id: usize, d: &Decision, cx: &mut Context<'_>) {
    let gh = g();
    let s = gh.slot_of[id];
    let gr = gh.group_of[id];
    if d.selfwake {
        gh::note_child_wake(gr, s);
        cx.waker().wake_by_ref();
    }
    // `allow_retain` is concrete per harness: symex prunes the branch
    if gh.allow_retain && d.retain {
        gh::retain(cx.waker(), gr, s);
    }
}

impl Future for Fut {
    type Output = u8;
    fn poll(self: Pin<&mut Self>, cx: &mut Context<'_>) -> Poll<u8> {
        let id = self.id as usize;
        on_poll_entry(id, &*self as *const Fut as usize);
        let d = decide();
        apply_wake_decisions(id, &d, cx);
        if d.ready {
            g().done[id] = true;
            Poll::Ready(self.id)
        } else {
            Poll::Pending
        }
    }
}

impl Drop for Fut {
    fn drop(&mut self) {
        let id = self.id as usize;
        let gh = g();
        gh.drops[id] = gh.drops[id].wrapping_add(1);
        vassert!(gh.drops[id] == 1, "C06:child dropped twice");
        if gh.addr[id] != 0 {
            vassert!(
                gh.addr[id] == self as *const Fut as usize,
                "C08:child dropped at another address"
            );
        }
    }
}

// ------------------------------------------------------------------ tokens

/// An output value whose drops are counted (C06)
pub struct Tok {
    pub id: u8,
}

impl Tok {
    pub fn new(id: u8) -> Tok {
        let gh = g();
        gh.tok_made[id as usize] = gh.tok_made[id as usize].wrapping_add(1);
        Tok { id }
    }
}

impl Drop for Tok {
    fn drop(&mut self) {
        let gh = g();
        let id = self.id as usize;
        gh.tok_drops[id] = gh.tok_drops[id].wrapping_add(1);
        vassert!(gh.tok_drops[id] <= gh.tok_made[id], "C06:output dropped more often than it was produced");
    }
}

/// scripted future with a droppable output
pub struct TFut {
    pub id: u8,
    _pin: PhantomPinned,
}

impl TFut {
    pub fn new(id: u8) -> Self {
        TFut { id, _pin: PhantomPinned }
    }
}

impl Future for TFut {
    type Output = Tok;
    fn poll(self: Pin<&mut Self>, cx: &mut Context<'_>) -> Poll<Tok> {
        let id = self.id as usize;
        on_poll_entry(id, &*self as *const TFut as usize);
        let d = decide();
        apply_wake_decisions(id, &d, cx);
        if d.ready {
            g().done[id] = true;
            Poll::Ready(Tok::new(self.id))
        } else {
            Poll::Pending
        }
    }
}

impl Drop for TFut {
    fn drop(&mut self) {
        let id = self.id as usize;
        let gh = g();
        gh.drops[id] = gh.drops[id].wrapping_add(1);
        vassert!(gh.drops[id] == 1, "C06:child dropped twice");
    }
}

/// scripted fallible future: `Ok(Tok)` or `Err(id)`
pub struct RFut {
    pub id: u8,
    _pin: PhantomPinned,
}

impl RFut {
    pub fn new(id: u8) -> Self {
        RFut { id, _pin: PhantomPinned }
    }
}

impl Future for RFut {
    type Output = Result<Tok, u8>;
    fn poll(self: Pin<&mut Self>, cx: &mut Context<'_>) -> Poll<Result<Tok, u8>> {
        let id = self.id as usize;
        on_poll_entry(id, &*self as *const RFut as usize);
        let d = decide();
        apply_wake_decisions(id, &d, cx);
        if d.ready {
            let gh = g();
            gh.done[id] = true;
            if nd::flag() {
                gh.failed[id] = true;
                Poll::Ready(Err(self.id))
            } else {
                Poll::Ready(Ok(Tok::new(self.id)))
            }
        } else {
            Poll::Pending
        }
    }
}

impl Drop for RFut {
    fn drop(&mut self) {
        let id = self.id as usize;
        let gh = g();
        gh.drops[id] = gh.drops[id].wrapping_add(1);
        vassert!(gh.drops[id] == 1, "C06:child dropped twice");
    }
}

// ------------------------------------------------------------ merge sources

/// item of source `id` with sequence number `seq`
pub fn item(id: u8, seq: u8) -> u8 {
    (id << 4) | (seq & 15)
}

/// A scripted source stream for the merges: numbered items, Pending gaps, end.
pub struct Src {
    pub id: u8,
}

impl futures_core::Stream for Src {
    type Item = u8;
    fn poll_next(self: Pin<&mut Self>, cx: &mut Context<'_>) -> Poll<Option<u8>> {
        let id = self.id as usize;
        on_poll_entry(id, &*self as *const Src as usize);
        let gh = g();
        // 0: item, 1: pending, 2: pending + self-wake, 3: end
        let d = nd::below(4);
        nd::assume(d != 2 || gh.selfwake_left > 0, "src:selfwake");
        nd::assume(d != 0 || gh.items_left > 0, "src:items");
        nd::assume(d != 3 || gh.allow_ready, "src:end");
        gh.last_answer[id] = d;
        match d {
            0 => {
                gh.items_left -= 1;
                let s = gh.seq[id];
                gh.seq[id] = s.wrapping_add(1);
                Poll::Ready(Some(item(self.id, s)))
            }
            3 => {
                gh.done[id] = true;
                Poll::Ready(None)
            }
            _ => {
                if d == 2 {
                    gh.selfwake_left -= 1;
                    gh::note_child_wake(gh.group_of[id], gh.slot_of[id]);
                    cx.waker().wake_by_ref();
                }
                Poll::Pending
            }
        }
    }
}

impl Drop for Src {
    fn drop(&mut self) {
        let id = self.id as usize;
        let gh = g();
        gh.drops[id] = gh.drops[id].wrapping_add(1);
        vassert!(gh.drops[id] == 1, "C06:source dropped twice");
    }
}

// ------------------------------------------------------------ upstreams

/// Scripted upstream of the buffered adapters: yields the futures with
/// consecutive identities `next_id, next_id+1, ...`, Pending gaps, end; keeps
/// an honest size_hint around its (ghost) number of remaining items.
pub struct Up<F> {
    pub mk: fn(u8) -> F,
}

pub fn up_poll_common(cx: &mut Context<'_>) -> u8 {
    let gh = g();
    vassert!(!gh.up_ended, "C10:upstream polled after it returned None");
    gh.up_polls += 1;
    // 0: item, 1: pending, 2: end, 3: error (try streams only)
    let d = nd::below(4);
    nd::assume(d != 3 || gh.up_allow_err, "up:err");
    // honest w.r.t. its ghost remainder: items only while some remain, end
    // only when none remain, Pending at any time
    nd::assume(!(d == 0 || d == 3) || gh.up_remaining > 0, "up:honest item");
    nd::assume(d != 2 || gh.up_remaining == 0, "up:honest end");
    gh.up_last = d;
    match d {
        0 | 3 => {
            gh.up_remaining -= 1;
            gh.up_pulled += 1;
            // the honest hint follows
            gh.up_hint_lo = gh.up_hint_lo.saturating_sub(1);
            gh.up_hint_hi = gh.up_hint_hi.saturating_sub(1);
        }
        2 => gh.up_ended = true,
        _ => {
            // an honest Pending upstream keeps the waker it was polled with
            gh.up_waker_task = if gh::is_task(cx.waker()) { 1 } else { 2 };
        }
    }
    d
}

impl<F> futures_core::Stream for Up<F> {
    type Item = F;
    fn poll_next(self: Pin<&mut Self>, cx: &mut Context<'_>) -> Poll<Option<F>> {
        let d = up_poll_common(cx);
        let gh = g();
        match d {
            0 => {
                let id = gh.up_next_id;
                gh.up_next_id += 1;
                Poll::Ready(Some((self.mk)(id)))
            }
            2 => Poll::Ready(None),
            _ => Poll::Pending,
        }
    }
    fn size_hint(&self) -> (usize, Option<usize>) {
        let gh = g();
        (gh.up_hint_lo, Some(gh.up_hint_hi))
    }
}

/// try-upstream: items are `Ok(future)` or `Err(code)`
pub struct TryUp<F> {
    pub mk: fn(u8) -> F,
}

impl<F> futures_core::Stream for TryUp<F> {
    type Item = Result<F, u8>;
    fn poll_next(self: Pin<&mut Self>, cx: &mut Context<'_>) -> Poll<Option<Result<F, u8>>> {
        let d = up_poll_common(cx);
        let gh = g();
        match d {
            0 => {
                let id = gh.up_next_id;
                gh.up_next_id += 1;
                Poll::Ready(Some(Ok((self.mk)(id))))
            }
            3 => {
                gh.up_errs += 1;
                Poll::Ready(Some(Err(200)))
            }
            2 => Poll::Ready(None),
            _ => Poll::Pending,
        }
    }
    fn size_hint(&self) -> (usize, Option<usize>) {
        let gh = g();
        (gh.up_hint_lo, Some(gh.up_hint_hi))
    }
}

/// scripted fallible future with plain outputs: `Ok(id)` / `Err(id)`
pub struct EFut {
    pub id: u8,
    _pin: PhantomPinned,
}

impl EFut {
    pub fn new(id: u8) -> Self {
        EFut { id, _pin: PhantomPinned }
    }
}

impl Future for EFut {
    type Output = Result<u8, u8>;
    fn poll(self: Pin<&mut Self>, cx: &mut Context<'_>) -> Poll<Result<u8, u8>> {
        let id = self.id as usize;
        on_poll_entry(id, &*self as *const EFut as usize);
        let d = decide();
        apply_wake_decisions(id, &d, cx);
        if d.ready {
            let gh = g();
            gh.done[id] = true;
            if nd::flag() {
                gh.failed[id] = true;
                Poll::Ready(Err(self.id))
            } else {
                Poll::Ready(Ok(self.id))
            }
        } else {
            Poll::Pending
        }
    }
}

impl Drop for EFut {
    fn drop(&mut self) {
        let id = self.id as usize;
        let gh = g();
        gh.drops[id] = gh.drops[id].wrapping_add(1);
        vassert!(gh.drops[id] == 1, "C06:child dropped twice");
    }
}

/// scripted future with unit output (for_each_concurrent)
pub struct UFut {
    pub id: u8,
    _pin: PhantomPinned,
}

impl UFut {
    pub fn new(id: u8) -> Self {
        UFut { id, _pin: PhantomPinned }
    }
}

impl Future for UFut {
    type Output = ();
    fn poll(self: Pin<&mut Self>, cx: &mut Context<'_>) -> Poll<()> {
        let id = self.id as usize;
        on_poll_entry(id, &*self as *const UFut as usize);
        let d = decide();
        apply_wake_decisions(id, &d, cx);
        if d.ready {
            g().done[id] = true;
            Poll::Ready(())
        } else {
            Poll::Pending
        }
    }
}

impl Drop for UFut {
    fn drop(&mut self) {
        let id = self.id as usize;
        let gh = g();
        gh.drops[id] = gh.drops[id].wrapping_add(1);
        vassert!(gh.drops[id] == 1, "C06:child dropped twice");
    }
}
