//! Nondeterminism and monitor vocabulary shared by the Kani run (solver picks
//! the values) and the native replayer (values come from a tape extracted from
//! Kani's concrete playback, in the order of the `kani::any` calls).
#![allow(static_mut_refs)]

#[cfg(not(kani))]
pub mod tape {
    use std::vec::Vec;
    pub static mut TAPE: Vec<u64> = Vec::new();
    pub static mut POS: usize = 0;
    pub static mut FIRED: Vec<&'static str> = Vec::new();
    pub static mut COVERED: Vec<&'static str> = Vec::new();
    pub static mut ASSUME_FAILED: Option<&'static str> = None;
    pub static mut EXHAUSTED: bool = false;

    pub fn load(vals: Vec<u64>) {
        unsafe {
            TAPE = vals;
            POS = 0;
            FIRED.clear();
            COVERED.clear();
            ASSUME_FAILED = None;
            EXHAUSTED = false;
        }
    }
    pub fn next() -> u64 {
        unsafe {
            if POS < TAPE.len() {
                POS += 1;
                TAPE[POS - 1]
            } else {
                EXHAUSTED = true;
                0
            }
        }
    }
}

/// arbitrary byte
#[inline(never)]
pub fn u8_any() -> u8 {
    #[cfg(kani)]
    {
        kani::any::<u8>()
    }
    #[cfg(not(kani))]
    {
        tape::next() as u8
    }
}

/// arbitrary machine word
#[inline(never)]
pub fn usize_any() -> usize {
    #[cfg(kani)]
    {
        kani::any::<usize>()
    }
    #[cfg(not(kani))]
    {
        tape::next() as usize
    }
}

/// arbitrary value in `0..n`
pub fn below(n: u8) -> u8 {
    let v = u8_any();
    assume(v < n, "below");
    v
}

pub fn flag() -> bool {
    below(2) == 1
}

pub fn assume(c: bool, _what: &'static str) {
    #[cfg(kani)]
    kani::assume(c);
    #[cfg(not(kani))]
    if !c {
        unsafe {
            if tape::ASSUME_FAILED.is_none() {
                tape::ASSUME_FAILED = Some(_what);
            }
        }
        // a tape that violates an assumption describes no execution
        std::panic::panic_any(AssumeFailed(_what));
    }
}

#[cfg(not(kani))]
pub struct AssumeFailed(pub &'static str);

/// monitor assertion: property obligation, labelled `"<PROP>:<what>"`
#[macro_export]
macro_rules! vassert {
    ($c:expr, $label:expr) => {{
        let c: bool = $c;
        // A Kani `assert!` also ASSUMES its condition, so a failing monitor hides
        // every later monitor of the same execution. The driver therefore compiles
        // the harness crate once per property (env FBV_PROP=<id> at build time):
        // only that property's monitors are asserted, the others are compiled out.
        #[cfg(kani)]
        {
            const ACTIVE: bool = $crate::nd::is_active($label);
            if ACTIVE {
                assert!(c, $label);
            }
        }
        #[cfg(not(kani))]
        {
            if !c {
                $crate::nd::fired($label);
            }
        }
    }};
}

/// reachability witness (vacuity guard)
#[macro_export]
macro_rules! vcover {
    ($c:expr, $label:expr) => {{
        #[cfg(kani)]
        {
            kani::cover!($c, $label);
        }
        #[cfg(not(kani))]
        {
            if $c {
                $crate::nd::covered($label);
            }
        }
    }};
}

/// is the monitor `label` ("<PROP>:...") part of the property this build is for?
/// (`FBV_PROP` unset: all monitors; labels without a property prefix: always)
pub const fn is_active(label: &str) -> bool {
    let p = match option_env!("FBV_PROP") {
        Some(p) => p.as_bytes(),
        None => return true,
    };
    let l = label.as_bytes();
    if p.is_empty() || l.len() < 4 || l[0] != b'C' || l[3] != b':' {
        return true;
    }
    if l.len() < p.len() {
        return false;
    }
    let mut i = 0;
    while i < p.len() {
        if l[i] != p[i] {
            return false;
        }
        i += 1;
    }
    true
}

#[cfg(not(kani))]
pub fn fired(label: &'static str) {
    unsafe {
        if !tape::FIRED.contains(&label) {
            tape::FIRED.push(label);
        }
    }
}
#[cfg(not(kani))]
pub fn covered(label: &'static str) {
    unsafe {
        if !tape::COVERED.contains(&label) {
            tape::COVERED.push(label);
        }
    }
}
