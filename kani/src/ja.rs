//! Step scenarios on `JoinAll<TFut>` / `TryJoinAll<RFut>`.
//!
//! INV_join: result slot i is written (with the output token of input i)
//! exactly when queue slot i is vacant.  Outputs are droppable tokens, so
//! leaks (C06) and fabricated values (C07) are both observable by counting.
#![allow(static_mut_refs)]

use crate::child::{RFut, TFut, Tok};
use crate::fub::{self, Pre};
use crate::gh::{self, g};
use crate::nd;
use crate::{vassert, vcover};
use core::future::Future;
use core::pin::Pin;
use core::task::{Context, Poll};
use futures_buffered::{JoinAll, TryJoinAll};

pub struct JCfg {
    pub n: usize,
    pub selfwakes: u8,
}

fn gen(c: &JCfg) -> Pre {
    let p = fub::gen_pre(c.n, false);
    fub::gen_ghost(&p, 0);
    p
}

fn tokens_intact(c: &JCfg, written: &[bool; 4]) {
    let gh = g();
    let mut i = 0;
    while i < c.n {
        if written[i] {
            vassert!(gh.tok_drops[i] == 0, "C06:a collected output was dropped while the combinator is still pending");
        }
        i += 1;
    }
}

/// Step(poll) of join_all, then the result or the pending combinator is dropped
pub fn step_join_all(c: &JCfg) {
    gh::reset();
    let p = gen(c);
    let gh = g();
    let q = fub::build_g(&p, 0, 0, TFut::new);
    let mut ja = JoinAll::verif_from_parts(q, c.n, |i| if p.occ[i] { None } else { Some(Tok::new(i as u8)) });
    gh.selfwake_left = c.selfwakes;
    let t = nd::below(2) as usize;
    let w = gh::task_waker(t);
    let mut cx = Context::from_waker(&w);
    let a0 = gh::allocs();
    gh::alloc_track(true);
    let r = Pin::new(&mut ja).poll(&mut cx);
    gh::alloc_track(false);
    vassert!(gh::allocs() == a0, "C18:join_all allocated during poll (incl. handing out the result)");
    match r {
        Poll::Ready(v) => {
            // count before looking: every input resolved, none handed out before
            let mut all = true;
            let mut i = 0;
            while i < c.n {
                if p.occ[i] && !gh.done[i] {
                    all = false;
                }
                i += 1;
            }
            if !all || v.len() != c.n {
                vassert!(false, "C07:join_all resolved before every input resolved (result holds a value no input produced)");
                core::mem::forget(v);
            } else {
                let mut i = 0;
                while i < c.n {
                    vassert!(v[i].id as usize == i, "C04:output of input i is not at index i");
                    vassert!(gh.tok_drops[i] == 0 && gh.tok_made[i] == 1, "C07:result element is not the one output of its input");
                    i += 1;
                }
                drop(v);
                let mut i = 0;
                while i < c.n {
                    vassert!(gh.tok_drops[i] == 1, "C06:output not dropped exactly once after being handed out");
                    vassert!(gh.drops[i] == if p.occ[i] { 1 } else { 0 }, "C05:finished input future not dropped");
                    i += 1;
                }
            }
            // polling again after completion must not fabricate anything
            if nd::flag() {
                if let Poll::Ready(v2) = Pin::new(&mut ja).poll(&mut cx) {
                    vassert!(v2.len() == 0, "C07:join_all polled again after completion handed out values no input produced");
                    core::mem::forget(v2);
                }
                vcover!(true, "cover:poll_after_ready");
            }
            vcover!(true, "cover:ready");
            core::mem::forget(ja);
        }
        Poll::Pending => {
            // INV': written <=> vacant; nothing lost
            let mut written = [false; 4];
            let mut pending = 0;
            let mut i = 0;
            while i < c.n {
                let done = !p.occ[i] || gh.done[i];
                written[i] = done;
                if !done {
                    pending += 1;
                }
                i += 1;
            }
            vassert!(pending > 0, "C07:Pending although every input resolved");
            vassert!(ja.verif_queue().len() == pending, "C02:queue of join_all lost or kept a future");
            tokens_intact(c, &written);
            // early drop (cancellation): everything is released exactly once
            drop(ja);
            let mut i = 0;
            while i < c.n {
                if written[i] {
                    vassert!(gh.tok_drops[i] == 1, "C06:output collected by join_all leaked when the combinator was dropped early");
                } else {
                    vassert!(gh.drops[i] == 1, "C06:pending input not dropped with the combinator");
                }
                i += 1;
            }
            vcover!(pending < c.n, "cover:pending_partial");
        }
    }
}

/// Step(poll) of try_join_all; after an `Err` either the combinator is dropped
/// (C06) or polled again (C07)
pub fn step_try_join_all(c: &JCfg) {
    gh::reset();
    let p = gen(c);
    let gh = g();
    let q = fub::build_g(&p, 0, 0, RFut::new);
    let mut tj = TryJoinAll::verif_from_parts(q, c.n, |i| if p.occ[i] { None } else { Some(Tok::new(i as u8)) });
    gh.selfwake_left = c.selfwakes;
    let t = nd::below(2) as usize;
    let w = gh::task_waker(t);
    let mut cx = Context::from_waker(&w);
    let a0 = gh::allocs();
    gh::alloc_track(true);
    let r = Pin::new(&mut tj).poll(&mut cx);
    gh::alloc_track(false);
    vassert!(gh::allocs() == a0, "C18:try_join_all allocated during poll (incl. handing out the result)");
    match r {
        Poll::Ready(Ok(v)) => {
            let ok = all_ok(c, &p);
            if !ok || v.len() != c.n {
                vassert!(false, "C07:try_join_all returned Ok although not every input succeeded (result holds a value no input produced)");
                core::mem::forget(v);
            } else {
                let mut i = 0;
                while i < c.n {
                    vassert!(v[i].id as usize == i, "C04:output of input i is not at index i");
                    i += 1;
                }
                drop(v);
                let mut i = 0;
                while i < c.n {
                    vassert!(gh.tok_drops[i] == 1, "C06:output not dropped exactly once after being handed out");
                    i += 1;
                }
            }
            vcover!(true, "cover:ok");
            core::mem::forget(tj);
        }
        Poll::Ready(Err(e)) => {
            let e = e as usize;
            vassert!(e < c.n && p.occ[e] && gh.failed[e] && gh.polls_in_call[e] > 0, "C07:returned an error no input produced in this call");
            let again = nd::flag();
            if again {
                // polling again must not fabricate a value
                let r2 = Pin::new(&mut tj).poll(&mut cx);
                if let Poll::Ready(Ok(v)) = r2 {
                    // count before looking: it may hand out at most the Ok
                    // outputs that exist and have not been released (an empty
                    // Vec fabricates nothing)
                    let mut available = 0;
                    let mut i = 0;
                    while i < c.n {
                        if gh.tok_made[i] == 1 && gh.tok_drops[i] == 0 {
                            available += 1;
                        }
                        i += 1;
                    }
                    vassert!(v.len() <= available, "C07:try_join_all polled again after an error returned Ok with a value no input produced");
                    core::mem::forget(v);
                }
                vcover!(true, "cover:poll_after_err");
                core::mem::forget(tj);
            } else {
                let made = gh.tok_made;
                drop(tj);
                let mut i = 0;
                while i < c.n {
                    vassert!(gh.tok_drops[i] == made[i], "C06:Ok output collected before the error leaked");
                    vassert!(gh.drops[i] == if p.occ[i] { 1 } else { 0 }, "C06:input future not dropped exactly once");
                    i += 1;
                }
                vcover!(made[0] + made[1] > 0, "cover:err_with_collected_outputs");
            }
        }
        Poll::Pending => {
            let mut i = 0;
            while i < c.n {
                vassert!(!gh.failed[i], "C07:an input failed but try_join_all stays Pending");
                if !p.occ[i] || gh.done[i] {
                    vassert!(gh.tok_drops[i] == 0, "C06:a collected output was dropped while the combinator is still pending");
                }
                i += 1;
            }
            let made = gh.tok_made;
            drop(tj);
            let mut i = 0;
            while i < c.n {
                vassert!(gh.tok_drops[i] == made[i], "C06:output collected by try_join_all leaked when the combinator was dropped early");
                i += 1;
            }
            vcover!(true, "cover:pending");
        }
    }
}

fn all_ok(c: &JCfg, p: &Pre) -> bool {
    let gh = g();
    let mut ok = true;
    let mut i = 0;
    while i < c.n {
        if p.occ[i] && (!gh.done[i] || gh.failed[i]) {
            ok = false;
        }
        i += 1;
    }
    ok
}
