//! Step scenarios on `FuturesUnorderedBounded<Fut>`: symbolic pre-state under
//! the representation invariant INV_bounded (DESIGN §3.4), ONE real operation,
//! ghost monitors.
#![allow(static_mut_refs)]

use crate::child::Fut;
use crate::gh::{self, g, MAXS};
use crate::nd;
use crate::{vassert, vcover};
use core::pin::Pin;
use core::task::{Context, Poll};
use futures_buffered::verif::{self as v, QEntry, Snap};
use futures_buffered::FuturesUnorderedBounded;
use futures_core::Stream;

pub const M_C01: u32 = 1 << 1;
pub const M_C02: u32 = 1 << 2;
pub const M_C05: u32 = 1 << 5;
pub const M_C12: u32 = 1 << 12;
pub const M_C13: u32 = 1 << 13;
pub const M_C14: u32 = 1 << 14;
pub const M_C15: u32 = 1 << 15;
pub const M_C17: u32 = 1 << 17;
pub const M_INV: u32 = 1 << 0;
pub const M_ALL: u32 = u32::MAX;

/// the per-poll budget of `poll_inner_no_remove` (src/futures_unordered_bounded.rs)
pub const BUDGET: usize = 61;

/// symbolic representation state of one bounded collection + ghost relation
#[derive(Clone, Copy)]
pub struct Pre {
    pub cap: usize,
    pub occ: [bool; MAXS],
    pub nf: [usize; MAXS],
    pub free_head: usize,
    pub filled: usize,
    pub qlen: usize,
    pub q: [QEntry; MAXS],
    /// a task waker is registered (armed) ...
    pub reg: bool,
    /// ... namely this one
    pub reg_t: usize,
    /// the last poll returned Pending with task waker `last_t` and nothing was
    /// pushed into a full-knowledge gap since (obligation I4 is live)
    pub sleeping: bool,
    pub last_t: usize,
    /// `last_t` has been invoked since that poll began
    pub task_woken: bool,
}

impl Pre {
    // all loops have the concrete bound `cap` (symex cannot use `qlen <= cap`)
    pub fn queued(&self, i: usize) -> bool {
        let mut r = false;
        let mut k = 0;
        while k < self.cap {
            if k < self.qlen && self.q[k].slot == i {
                r = true;
            }
            k += 1;
        }
        r
    }
    pub fn inflight(&self, i: usize) -> bool {
        let mut r = false;
        let mut k = 0;
        while k < self.cap {
            if k < self.qlen && self.q[k].slot == i && self.q[k].inflight {
                r = true;
            }
            k += 1;
        }
        r
    }
    /// an enqueue is in flight at or ahead of slot `i`'s queue position
    /// (its completion will notify the task)
    pub fn inflight_upto(&self, i: usize) -> bool {
        let mut r = false;
        let mut passed = false;
        let mut k = 0;
        while k < self.cap {
            if k < self.qlen && !passed {
                if self.q[k].inflight {
                    r = true;
                }
                if self.q[k].slot == i {
                    passed = true;
                }
            }
            k += 1;
        }
        r
    }
    pub fn any_inflight(&self) -> bool {
        let mut r = false;
        let mut k = 0;
        while k < self.cap {
            if k < self.qlen && self.q[k].inflight {
                r = true;
            }
            k += 1;
        }
        r
    }
}

/// I1: the free list is a simple path through exactly the vacant slots ending at `cap`
pub fn slotmap_inv(cap: usize, occ: &[bool; MAXS], nf: &[usize; MAXS], free_head: usize, filled: usize) -> bool {
    let mut seen = [false; MAXS];
    let mut cur = free_head;
    let mut n_occ = 0;
    let mut i = 0;
    while i < cap {
        if occ[i] {
            n_occ += 1;
        }
        i += 1;
    }
    if n_occ != filled {
        return false;
    }
    let mut steps = 0;
    let mut ok = true;
    let mut it = 0;
    while it < cap {
        if cur != cap {
            if cur > cap || occ[cur] || seen[cur] {
                ok = false;
                cur = cap;
            } else {
                seen[cur] = true;
                cur = nf[cur];
                steps += 1;
            }
        }
        it += 1;
    }
    // the walk ended at `cap` and every vacant slot is on the list
    ok && cur == cap && steps + n_occ == cap
}

/// I2: queue entries are distinct slots below cap
pub fn queue_inv(cap: usize, qlen: usize, q: &[QEntry; MAXS]) -> bool {
    let mut ok = qlen <= cap;
    let mut a = 0;
    while a < cap {
        if a < qlen {
            if q[a].slot >= cap {
                ok = false;
            }
            let mut b = a + 1;
            while b < cap {
                if b < qlen && q[b].slot == q[a].slot {
                    ok = false;
                }
                b += 1;
            }
        }
        a += 1;
    }
    ok
}

/// pick an arbitrary representation state satisfying I1, I2
pub fn gen_pre(cap: usize, inflight_ok: bool) -> Pre {
    gen_pre_q(cap, inflight_ok, cap)
}

/// a concrete (non-symbolic) state: slot 0 occupied iff `held`, nothing queued,
/// canonical free list - for the groups a multi-group harness is not about
pub fn fixed_pre(cap: usize, held: bool) -> Pre {
    let mut p = Pre {
        cap,
        occ: [false; MAXS],
        nf: [0; MAXS],
        free_head: 0,
        filled: 0,
        qlen: 0,
        q: [QEntry { slot: 0, inflight: false }; MAXS],
        reg: false,
        reg_t: 0,
        sleeping: false,
        last_t: 0,
        task_woken: false,
    };
    let mut i = 0;
    while i < cap {
        p.nf[i] = i + 1;
        i += 1;
    }
    if held && cap > 0 {
        p.occ[0] = true;
        p.filled = 1;
        p.free_head = 1;
    }
    p
}

/// as `gen_pre`, with at most `qmax` ready-queue entries (`qmax == 0`: the
/// queue is concretely empty, which keeps a poll of this collection trivial
/// for symex - used for the groups a multi-group harness is not about)
pub fn gen_pre_q(cap: usize, inflight_ok: bool, qmax: usize) -> Pre {
    // qmax == 9: concrete state holding one child; qmax == 8: concrete empty state
    if qmax == 9 {
        return fixed_pre(cap, true);
    }
    if qmax == 8 {
        return fixed_pre(cap, false);
    }
    #[cfg(futures_buffered_verif_model)]
    if inflight_ok {
        v::model_waker::set_two_phase(true);
    }
    let mut p = Pre {
        cap,
        occ: [false; MAXS],
        nf: [0; MAXS],
        free_head: 0,
        filled: 0,
        qlen: 0,
        q: [QEntry { slot: 0, inflight: false }; MAXS],
        reg: false,
        reg_t: 0,
        sleeping: false,
        last_t: 0,
        task_woken: false,
    };
    let mut i = 0;
    while i < cap {
        p.occ[i] = nd::flag();
        if p.occ[i] {
            p.filled += 1;
        } else {
            p.nf[i] = nd::below(cap as u8 + 1) as usize;
        }
        i += 1;
    }
    p.free_head = nd::below(cap as u8 + 1) as usize;
    nd::assume(slotmap_inv(cap, &p.occ, &p.nf, p.free_head, p.filled), "I1");
    let qmax = if qmax < cap { qmax } else { cap };
    p.qlen = if qmax == 0 { 0 } else { nd::below(qmax as u8 + 1) as usize };
    let mut k = 0;
    while k < qmax {
        p.q[k].slot = nd::below(cap as u8) as usize;
        p.q[k].inflight = if inflight_ok { nd::flag() } else { false };
        k += 1;
    }
    nd::assume(queue_inv(cap, p.qlen, &p.q), "I2");
    p.reg = nd::flag();
    p.reg_t = nd::below(2) as usize;
    p.sleeping = nd::flag();
    p.last_t = nd::below(2) as usize;
    p.task_woken = nd::flag();
    p
}

/// pick the ghost relation of the pre-state (which children were polled before,
/// which need a poll) and assume I3, I4
pub fn gen_ghost(p: &Pre, group: usize) {
    gen_ghost_b(p, group, 0)
}

/// as `gen_ghost`, child identities start at `base`
pub fn gen_ghost_b(p: &Pre, group: usize, base: usize) {
    let gh = g();
    let mut i = 0;
    while i < p.cap {
        if p.occ[i] {
            let polled_before = nd::flag();
            // I3: a held child that needs a poll (pushed and never polled, or
            // its waker was invoked since its last poll began) is queued.
            // (Not conversely: a wake landing between the dequeue of a slot
            // and the start of its poll leaves a queued slot whose child does
            // not "need" a poll.)
            let needs = nd::flag();
            nd::assume(!needs || p.queued(i), "I3");
            gh.set_fresh(group, i, !polled_before);
            gh.set_needs(group, i, needs);
            // pushed and never polled => needs a poll
            nd::assume(polled_before || needs, "ghost:fresh needs poll");
            if polled_before {
                gh.polls[base + i] = 1;
            }
        }
        i += 1;
    }
    if p.sleeping {
        // I4a: the sleeping task will hear about the next wake, or was already told
        nd::assume(p.task_woken || (p.reg && p.reg_t == p.last_t), "I4a");
        if !p.task_woken {
            // I4b: a silent Pending drained the queue: every queued held child
            // was pushed since, or sits behind an enqueue still in flight
            // (whose completion notifies the registered task)
            let mut i = 0;
            while i < p.cap {
                if p.occ[i] && p.queued(i) {
                    nd::assume(gh.is_fresh(group, i) || p.inflight_upto(i), "I4b");
                }
                i += 1;
            }
        }
    }
}

pub fn build(p: &Pre, group: u8) -> FuturesUnorderedBounded<Fut> {
    build_b(p, group, 0)
}

/// as `build`, child identities start at `base`
pub fn build_b(p: &Pre, group: u8, base: usize) -> FuturesUnorderedBounded<Fut> {
    build_g(p, group, base, Fut::new)
}

/// as `build_b` for any scripted child type
pub fn build_g<F>(p: &Pre, group: u8, base: usize, mk: impl Fn(u8) -> F) -> FuturesUnorderedBounded<F> {
    let gh = g();
    let mut i = 0;
    while i < p.cap {
        if p.occ[i] {
            gh.slot_of[base + i] = i as u8;
            gh.group_of[base + i] = group;
        }
        i += 1;
    }
    let w = gh::task_waker(p.reg_t);
    let q = p.q;
    let f = v::fub_from_parts(
        p.cap,
        |i| if p.occ[i] { Ok(mk((base + i) as u8)) } else { Err(p.nf[i]) },
        p.free_head,
        p.qlen,
        &q,
        &w,
        p.reg,
    );
    // (the real list consumes a registration by a wake of the stored waker)
    gh.task_wakes = [0; 2];
    // children that were polled before sit at their first-poll address
    let mut i = 0;
    while i < p.cap {
        if p.occ[i] && !gh.is_fresh(group as usize, i) {
            if let Some(c) = v::fub_peek(&f, i) {
                gh.addr[base + i] = c as *const F as usize;
            }
        }
        i += 1;
    }
    f
}

pub fn snap<F>(f: &mut FuturesUnorderedBounded<F>, cap: usize, t: usize) -> Snap {
    let w = gh::task_waker(t);
    let s = v::fub_snapshot(f, cap, &w, &|| g().task_wakes[t]);
    core::mem::forget(w);
    s
}

fn snap_occ(s: &Snap) -> [bool; MAXS] {
    let mut o = [false; MAXS];
    let mut i = 0;
    while i < s.cap && i < MAXS {
        o[i] = s.next_free[i].is_none();
        i += 1;
    }
    o
}
fn snap_nf(s: &Snap) -> [usize; MAXS] {
    let mut o = [0; MAXS];
    let mut i = 0;
    while i < s.cap && i < MAXS {
        o[i] = s.next_free[i].unwrap_or(0);
        i += 1;
    }
    o
}
fn snap_q(s: &Snap) -> [QEntry; MAXS] {
    let mut o = [QEntry { slot: 0, inflight: false }; MAXS];
    let mut i = 0;
    while i < s.cap && i < MAXS {
        if i < s.qlen {
            o[i] = s.q[i];
        }
        i += 1;
    }
    o
}

/// INV on a post-state: I1, I2, I3
pub fn snap_occ_pub(s: &Snap) -> [bool; MAXS] {
    snap_occ(s)
}

pub fn check_inv_post(s: &Snap, group: usize, mon: u32) {
    let gh = g();
    let occ = snap_occ(s);
    if mon & (M_INV | M_C02 | M_C15) != 0 {
        vassert!(
            slotmap_inv(s.cap, &occ, &snap_nf(s), s.free_head, s.filled),
            "C02:slot map invariant broken (free list / occupied count)"
        );
        vassert!(
            s.qlen <= MAXS && queue_inv(s.cap, s.qlen, &snap_q(s)),
            "C12:ready queue holds a duplicate or out-of-range slot"
        );
    }
    if mon & (M_INV | M_C01) != 0 {
        let mut i = 0;
        while i < s.cap {
            if occ[i] && gh.needs(group, i) {
                vassert!(s.queued(i), "C01:a held child that needs a poll is not queued");
            }
            i += 1;
        }
    }
}

pub struct StepCfg {
    pub cap: usize,
    /// self-wakes the scripted children may perform in total (bounds the poll loop)
    pub selfwakes: u8,
    pub mon: u32,
    pub env_budget: u8,
    pub inflight_ok: bool,
    pub quiet: bool,
    pub handles: bool,
}

/// Step(poll_next) from an arbitrary INV pre-state
pub fn step_poll(c: &StepCfg) {
    gh::reset();
    let mon = c.mon;
    let p = gen_pre(c.cap, c.inflight_ok);
    gen_ghost(&p, 0);
    let mut f = build(&p, 0);
    let gh = g();
    gh.selfwake_left = c.selfwakes;
    if c.quiet {
        gh.selfwake_left = 0;
        gh.allow_retain = false;
    }
    if c.handles {
        // retained child wakers (possibly stale: of vacant or reused slots)
        // (always present, symbolically active: keeps their vtables constant for symex)
        let mut h = 0;
        while h < gh::NH {
            let s = nd::below(c.cap as u8) as usize;
            gh::install_handle(h, v::fub_child_waker(&f, s), 0, s as u8);
            gh::set_handle_active(h, nd::flag());
            h += 1;
        }
    }
    if c.env_budget > 0 {
        gh::enable_env(c.env_budget, c.inflight_ok);
    }
    // entries that were in flight at entry may complete at any time: those are
    // environment events too (budgeted separately below, after the call)

    let pre_needs = gh.needs_poll[0];
    let t = nd::below(2) as usize;
    let w = gh::task_waker(t);
    let wakes_before = gh.task_wakes;
    let child_wakes_before = gh.child_wakes;
    let size_hint_pre = f.size_hint();
    if mon & (M_C15 | M_C17) != 0 {
        vassert!(
            size_hint_pre == (p.filled, Some(p.filled)),
            "C17:size_hint differs from the number of held futures"
        );
        vassert!(f.len() == p.filled, "C15:len differs from the number of held futures");
        vassert!(f.is_empty() == (p.filled == 0), "C15:is_empty inconsistent");
        vassert!(f.capacity() == c.cap, "C15:capacity changed");
    }

    let mut cx = Context::from_waker(&w);
    let a0 = gh::allocs();
    gh::alloc_track(true);
    let r = Pin::new(&mut f).poll_next(&mut cx);
    gh::alloc_track(false);
    v::set_sched(None);
    vassert!(gh::allocs() == a0, "C18:FuturesUnorderedBounded allocated during poll_next");

    let woken_t = gh.task_wakes[t] > wakes_before[t];
    let other = 1 - t;
    let polls_in_call = gh.total_child_polls;
    let s = snap(&mut f, c.cap, t);
    let occ = snap_occ(&s);
    check_inv_post(&s, 0, mon);

    if mon & M_C13 != 0 {
        vassert!(polls_in_call <= BUDGET, "C13:more child polls in one call than the budget");
    }
    if mon & M_C12 != 0 {
        // only children taken from the ready queue are polled: a child polled
        // in this call was queued at entry or woken during the call, and is
        // polled at most once per queue entry
        let mut i = 0;
        while i < c.cap {
            if p.occ[i] {
                let woken_in_call = gh.child_wakes > child_wakes_before;
                vassert!(
                    gh.polls_in_call[i] == 0 || p.queued(i) || woken_in_call,
                    "C12:child polled without being queued or woken"
                );
                if !woken_in_call {
                    vassert!(gh.polls_in_call[i] <= 1, "C12:child polled twice for one notification");
                }
            }
            i += 1;
        }
        let consumed = p.qlen + (gh.child_wakes - child_wakes_before);
        vassert!(polls_in_call + s.qlen <= consumed, "C12:more child polls than queue entries consumed");
    }
    if mon & M_C01 != 0 {
        vassert!(
            gh.task_wakes[other] == wakes_before[other] || p.reg && p.reg_t == other,
            "C01:a task waker that was never registered was invoked"
        );
    }

    match r {
        Poll::Ready(Some(x)) => {
            let x = x as usize;
            if mon & M_C02 != 0 {
                vassert!(x < c.cap && p.occ[x], "C02:yielded an item no held future produced");
                vassert!(gh.done[x] && gh.polls_in_call[x] >= 1, "C02:yielded output of a future that did not complete in this call");
                vassert!(!occ[x], "C02:slot of the yielded future still occupied");
                vassert!(s.filled + 1 == p.filled, "C02:held count not decremented by one");
                let mut i = 0;
                while i < c.cap {
                    if i != x {
                        vassert!(occ[i] == p.occ[i], "C02:another slot changed occupancy");
                        vassert!(!p.occ[i] || !gh.done[i], "C02:a completed future's output was dropped");
                    }
                    i += 1;
                }
            }
            if mon & M_C05 != 0 {
                vassert!(gh.drops[x] == 1, "C05:finished future not dropped when its output is handed out");
            }
            vcover!(true, "cover:yield");
        }
        Poll::Ready(None) => {
            if mon & M_C02 != 0 {
                vassert!(p.filled == 0, "C02:Ready(None) while futures are held");
                vassert!(polls_in_call == 0, "C02:child polled by an empty collection");
            }
            vcover!(true, "cover:none");
        }
        Poll::Pending => {
            if mon & M_C02 != 0 {
                vassert!(p.filled > 0, "C02:Pending although nothing is held");
                vassert!(s.filled == p.filled, "C02:held count changed by a Pending poll");
                let mut i = 0;
                while i < c.cap {
                    vassert!(occ[i] == p.occ[i], "C02:occupancy changed by a Pending poll");
                    vassert!(!p.occ[i] || !gh.done[i], "C02:a completed future's output was dropped");
                    i += 1;
                }
            }
            if mon & M_C01 != 0 {
                // I4 re-established for the task waker of THIS poll
                vassert!(woken_t || s.registered, "C01:Pending, task neither woken nor registered");
                if !woken_t {
                    // nothing needs a poll, except behind an enqueue still in
                    // flight (whose completion notifies the registered task)
                    let mut k = 0;
                    let mut behind_inflight = false;
                    while k < c.cap {
                        if k < s.qlen {
                            if s.q[k].inflight {
                                behind_inflight = true;
                            }
                            let sl = s.q[k].slot;
                            vassert!(
                                behind_inflight || !occ[sl],
                                "C01:Pending with a queued held child left un-polled, task not woken"
                            );
                        }
                        k += 1;
                    }
                }
            }
            if mon & M_C14 != 0 && c.quiet && c.env_budget == 0 && !p.any_inflight() {
                // quiet environment, queue within budget: silent Pending, queue drained
                vassert!(!woken_t, "C14:task woken although no child waker was invoked");
                vassert!(s.qlen == 0, "C14:ready queue not drained by a quiet poll");
            }
            if mon & M_C13 != 0 {
                // every child that was queued (linked, nothing in flight ahead) at entry was polled
                let mut k = 0;
                let mut blocked = false;
                while k < c.cap {
                    if k < p.qlen {
                        if p.q[k].inflight {
                            blocked = true;
                        }
                        let sl = p.q[k].slot;
                        // the entry after which an in-flight one follows is blocked too (Inconsistent)
                        let next_inflight = k + 1 < p.qlen && k + 1 < MAXS && p.q[(k + 1) % MAXS].inflight;
                        if !blocked && !next_inflight && p.occ[sl] && c.env_budget == 0 {
                            vassert!(gh.polls_in_call[sl] >= 1, "C13:queued child not polled by a Pending poll within budget");
                        }
                        if next_inflight {
                            blocked = true;
                        }
                    }
                    k += 1;
                }
            }
            vcover!(true, "cover:pending");
            vcover!(woken_t, "cover:pending_woken");
            vcover!(polls_in_call == BUDGET, "cover:budget_exhausted");
        }
    }
    let _ = pre_needs;
    if mon & (M_C15 | M_C17) != 0 {
        let sh = f.size_hint();
        vassert!(sh == (s.filled, Some(s.filled)), "C17:size_hint differs from the number of held futures");
        vassert!(f.len() == s.filled, "C15:len differs from the number of held futures");
        vassert!(f.is_empty() == (s.filled == 0), "C15:is_empty inconsistent");
        vassert!(f.capacity() == c.cap, "C15:capacity changed");
        vassert!(s.filled <= c.cap, "C15:holds more than its capacity");
        vassert!(futures_core::FusedStream::is_terminated(&f) == (s.filled == 0), "C15:is_terminated differs from emptiness");
    }
    gh::drop_all_handles();
    // C08: moving the collection value does not move the children
    let moved = f;
    let mut i = 0;
    while i < c.cap {
        if let Some(ch) = v::fub_peek(&moved, i) {
            let id = ch.id as usize % gh::NCH;
            vassert!(gh.addr[id] == 0 || gh.addr[id] == ch as *const Fut as usize, "C08:a child moved when the collection value was moved");
        }
        i += 1;
    }
    core::mem::forget(moved);
}

// ===================================================================== push

/// Step(try_push) from an arbitrary INV pre-state
pub fn step_push(c: &StepCfg) {
    gh::reset();
    let mon = c.mon;
    let p = gen_pre(c.cap, c.inflight_ok);
    gen_ghost(&p, 0);
    let mut f = build(&p, 0);
    let gh = g();
    let id = c.cap; // identity of the pushed future
    let t = p.last_t;
    let pre_wakes = gh.task_wakes;
    let pre_needs = gh.needs_poll[0];

    let a0 = gh::allocs();
    gh::alloc_track(true);
    let r = f.try_push(Fut::new(id as u8));
    gh::alloc_track(false);
    vassert!(gh::allocs() == a0, "C18:FuturesUnorderedBounded allocated during a push");

    let s = snap(&mut f, c.cap, t);
    let occ = snap_occ(&s);
    match r {
        Ok(()) => {
            let slot = p.free_head;
            gh.slot_of[id] = slot as u8;
            gh.group_of[id] = 0;
            if slot < MAXS {
                gh.set_needs(0, slot, true);
                gh.set_fresh(0, slot, true);
            }
            if mon & M_C15 != 0 {
                vassert!(p.filled < c.cap, "C15:push accepted although the collection is full");
                vassert!(s.filled == p.filled + 1, "C15:len not incremented by an accepted push");
                vassert!(f.len() == p.filled + 1, "C15:len not incremented by an accepted push");
            }
            if mon & M_C02 != 0 {
                vassert!(slot < c.cap && !p.occ[slot % MAXS] && occ[slot % MAXS], "C02:accepted future not stored in the free-list head slot");
                let mut i = 0;
                while i < c.cap {
                    if i != slot {
                        vassert!(occ[i] == p.occ[i], "C02:push changed the occupancy of another slot");
                    }
                    i += 1;
                }
                match v::fub_peek(&f, slot % MAXS) {
                    Some(ch) => vassert!(ch.id as usize == id, "C02:slot holds another future than the one pushed"),
                    None => vassert!(false, "C02:pushed future not held"),
                }
            }
            if mon & M_C01 != 0 {
                vassert!(s.queued(slot), "C01:pushed future not marked ready");
            }
            if mon & M_C12 != 0 {
                // a stale queue entry of the slot is reused, never duplicated
                vassert!(s.qlen == p.qlen + if p.queued(slot) { 0 } else { 1 }, "C12:push changed the ready queue by more than its own entry");
            }
            vcover!(p.queued(slot), "cover:push_reuses_stale_entry");
            vcover!(true, "cover:push_ok");
        }
        Err(back) => {
            if mon & M_C15 != 0 {
                vassert!(p.filled == c.cap, "C15:push refused although there is room");
                vassert!(back.id as usize == id, "C15:refused try_push returned another future");
                vassert!(gh.drops[id] == 0, "C15:refused future was dropped");
                vassert!(s.filled == p.filled && s.free_head == p.free_head && s.qlen == p.qlen, "C15:refused push disturbed the collection");
                let mut i = 0;
                while i < c.cap {
                    vassert!(occ[i] == p.occ[i], "C15:refused push disturbed the held futures");
                    i += 1;
                }
                vassert!(gh.needs_poll[0] == pre_needs, "C15:refused push disturbed the ghost");
            }
            vcover!(true, "cover:push_refused");
            core::mem::forget(back);
        }
    }
    check_inv_post(&s, 0, mon);
    if mon & (M_C14 | M_C12) != 0 {
        // (a wake in flight on the pushed slot completes - and notifies - while push spins on the slot lock)
        vassert!(p.any_inflight() || gh.task_wakes[0] == pre_wakes[0] && gh.task_wakes[1] == pre_wakes[1], "C14:push invoked a task waker");
        vassert!(gh.total_child_polls == 0, "C12:push polled a child");
    }
    if mon & (M_C15 | M_C17) != 0 {
        vassert!(f.size_hint() == (s.filled, Some(s.filled)), "C17:size_hint differs from the number of held futures");
        vassert!(f.is_empty() == (s.filled == 0), "C15:is_empty inconsistent");
        vassert!(f.capacity() == c.cap, "C15:capacity changed");
    }
    core::mem::forget(f);
}

// ===================================================================== wake

/// Step(environment invokes / clones / drops the waker of slot s) from an
/// arbitrary INV pre-state, including stale wakers of vacant slots, and the
/// two halves of a wake racing on another thread.
pub fn step_wake(c: &StepCfg) {
    gh::reset();
    let mon = c.mon;
    let p = gen_pre(c.cap, c.inflight_ok);
    gen_ghost(&p, 0);
    let mut f = build(&p, 0);
    let gh = g();
    let s_ = nd::below(c.cap as u8) as usize;
    gh::install_handle(0, v::fub_child_waker(&f, s_), 0, s_ as u8);
    let t = p.last_t;
    let pre_wakes = gh.task_wakes;
    let was_queued = p.queued(s_);
    let was_inflight = p.inflight(s_);

    // 0: wake_by_ref, 1: wake (by value, consumes the handle), 2: clone + drop the clone,
    // 3: first half of a racing wake, 4: second half
    let op = nd::below(if c.inflight_ok { 5 } else { 3 });
    let a0 = gh::allocs();
    gh::alloc_track(true);
    match op {
        0 => gh::env_fire(0),
        1 => {
            gh::note_child_wake(0, s_ as u8);
            let w = unsafe { gh::HANDLES[0].take() };
            if let Some(w) = w {
                w.wake();
            }
        }
        2 => {
            let w2 = unsafe { gh::HANDLES[0].clone() };
            drop(w2);
        }
        #[cfg(futures_buffered_verif_model)]
        3 => gh::env_begin(0),
        #[cfg(futures_buffered_verif_model)]
        4 => gh::env_finish(0),
        _ => {}
    }
    gh::alloc_track(false);
    vassert!(gh::allocs() == a0, "C18:waking, cloning or dropping a child waker allocated");

    let s = snap(&mut f, c.cap, t);
    let occ = snap_occ(&s);
    check_inv_post(&s, 0, mon);
    let woke = op == 0 || op == 1;
    let woken_t = gh.task_wakes[t] > pre_wakes[t];
    if mon & M_C02 != 0 {
        let mut i = 0;
        while i < c.cap {
            vassert!(occ[i] == p.occ[i], "C02:a waker call changed the held futures");
            i += 1;
        }
        vassert!(s.filled == p.filled && s.free_head == p.free_head, "C02:a waker call changed the slot map");
    }
    if mon & M_C12 != 0 {
        vassert!(gh.total_child_polls == 0, "C12:a waker call polled a child");
        if woke {
            vassert!(s.queued(s_), "C01:woken slot not queued");
            vassert!(s.qlen == p.qlen + if was_queued { 0 } else { 1 }, "C12:repeated wake queued the slot twice");
        } else if op == 2 {
            vassert!(s.qlen == p.qlen, "C12:clone/drop of a waker changed the ready queue");
        }
    }
    if mon & M_C14 != 0 {
        if !woke && op != 4 && !(op == 3 && was_inflight) {
            vassert!(gh.task_wakes[0] == pre_wakes[0] && gh.task_wakes[1] == pre_wakes[1], "C14:task woken without a child waker being invoked");
        }
        if woke && was_queued && !was_inflight {
            vassert!(gh.task_wakes[0] == pre_wakes[0] && gh.task_wakes[1] == pre_wakes[1], "C14:task woken by a wake of an already queued child");
        }
        vassert!(gh.task_wakes[1 - t] == pre_wakes[1 - t] || (p.reg && p.reg_t == 1 - t), "C14:a task waker that is not registered was invoked");
    }
    if mon & M_C01 != 0 && p.sleeping {
        // I4 preserved: the task of the last (Pending) poll learns about it
        let told = p.task_woken || woken_t;
        vassert!(told || s.registered, "C01:sleeping task neither woken nor still registered after a child wake");
        if !told {
            let mut k = 0;
            let mut behind_inflight = false;
            while k < c.cap {
                if k < s.qlen {
                    if s.q[k].inflight {
                        behind_inflight = true;
                    }
                    let sl = s.q[k].slot;
                    vassert!(
                        behind_inflight || !occ[sl] || gh.is_fresh(0, sl),
                        "C01:child woken while the task sleeps, task not notified"
                    );
                }
                k += 1;
            }
        }
        if woke && !was_queued && occ[s_] && p.reg && p.reg_t == t && !p.any_inflight() {
            vassert!(woken_t, "C01:wake of a held, not yet queued child did not notify the registered task");
        }
    }
    vcover!(woke && !was_queued && woken_t, "cover:wake_notifies");
    vcover!(woke && was_queued, "cover:wake_coalesced");
    vcover!(woke && !p.occ[s_], "cover:stale_wake");
    gh::drop_all_handles();
    core::mem::forget(f);
}

// ===================================================================== drop

/// Step(drop) from an arbitrary INV pre-state, with retained wakers outliving
/// the collection (dropped afterwards, or woken after the collection is gone)
pub fn step_drop(c: &StepCfg) {
    gh::reset();
    let p = gen_pre(c.cap, false);
    gen_ghost(&p, 0);
    let f = build(&p, 0);
    let gh = g();
    let mut h = 0;
    while h < gh::NH {
        if c.handles {
            let s = nd::below(c.cap as u8) as usize;
            gh::install_handle(h, v::fub_child_waker(&f, s), 0, s as u8);
        }
        h += 1;
    }
    let pre_wakes = gh.task_wakes;
    drop(f);
    let mut i = 0;
    while i < c.cap {
        if p.occ[i] {
            vassert!(gh.drops[i] == 1, "C06:held future not dropped exactly once with the collection");
        }
        i += 1;
    }
    vassert!(gh.task_wakes[0] == pre_wakes[0] && gh.task_wakes[1] == pre_wakes[1], "C14:dropping the collection woke a task");
    // a wake after the collection is gone has no effect other than possibly
    // waking the last registered task
    if c.handles && nd::flag() {
        gh::env_fire(0);
        vassert!(gh.total_child_polls == 0, "C05:child polled after its collection was dropped");
    }
    gh::drop_all_handles();
    let mut i = 0;
    while i < c.cap {
        if p.occ[i] {
            vassert!(gh.drops[i] == 1, "C06:future dropped again by a late waker");
        }
        i += 1;
    }
    vcover!(p.filled == c.cap, "cover:drop_full");
}

// ===================================================================== budget

/// a child that wakes itself on every poll until its `stop`-th poll
pub struct Spin {
    pub stop: usize,
}

impl core::future::Future for Spin {
    type Output = u8;
    fn poll(self: Pin<&mut Self>, cx: &mut Context<'_>) -> Poll<u8> {
        let gh = g();
        gh.total_child_polls += 1;
        if gh.total_child_polls < self.stop {
            gh.child_wakes += 1;
            cx.waker().wake_by_ref();
        }
        Poll::Pending
    }
}

/// The per-poll budget: one held child that wakes itself on every poll until
/// its `stop`-th poll (`stop` is concrete per harness: the 61 iterations then
/// fold to constants). The call must return after at most BUDGET child polls,
/// and when it stops early it must have woken its task (C13); the task is woken
/// only if a child waker was invoked (C14).
pub fn budget(stop: usize) {
    gh::reset();
    let gh = g();
    let t = nd::below(2) as usize;
    let w = gh::task_waker(t);
    let q = [QEntry { slot: 0, inflight: false }; MAXS];
    let mut f: FuturesUnorderedBounded<Spin> = v::fub_from_parts(1, |_| Ok(Spin { stop }), 1, 1, &q, &w, false);
    gh.task_wakes = [0; 2];
    let mut cx = Context::from_waker(&w);
    let r = Pin::new(&mut f).poll_next(&mut cx);
    vassert!(matches!(r, Poll::Pending), "C02:a pending child produced an item");
    vassert!(gh.total_child_polls <= BUDGET, "C13:more child polls in one call than the budget");
    let s = snap(&mut f, 1, t);
    vassert!(gh.task_wakes[1 - t] == 0, "C01:a task waker that was never registered was invoked");
    // how often the child asks to be polled; the code's budget constant itself is
    // not part of any property: only "bounded, and not forgotten when cut short"
    let want = if stop == 0 { 1 } else { stop };
    if gh.total_child_polls < want {
        // stopped early, the child is still queued: the task must have been told
        vassert!(s.qlen == 1, "C01:self-woken child lost from the ready queue");
        vassert!(gh.task_wakes[t] >= 1, "C01:budget exhausted with a queued child, task not woken");
        vassert!(gh.task_wakes[t] >= 1, "C13:poll stopped early with a notified child still queued, task not woken");
        vcover!(true, "cover:budget_exhausted");
    } else {
        vassert!(gh.total_child_polls == want, "C12:child polled more often than it was notified");
        vassert!(s.qlen == 0, "C14:ready queue not drained");
        vassert!(s.qlen == 0, "C12:a slot is queued although nobody invoked its waker since its last poll");
        // woken only as a consequence of a child-waker invocation
        vassert!(gh.child_wakes > 0 || gh.task_wakes[t] == 0, "C14:task woken although no child waker was invoked");
        vassert!(gh.child_wakes == 0 || gh.task_wakes[t] >= 1, "C01:self-waking child did not notify the task");
        vcover!(true, "cover:within_budget");
    }
    core::mem::forget(f);
}

/// a child that never completes and never wakes itself
pub struct Idle;

impl core::future::Future for Idle {
    type Output = u8;
    fn poll(self: Pin<&mut Self>, _cx: &mut Context<'_>) -> Poll<u8> {
        g().total_child_polls += 1;
        Poll::Pending
    }
}

/// More queued children than the per-poll budget, none of which wakes itself:
/// the call must stop after BUDGET child polls AND wake its task, because the
/// children left in the queue have already been notified (C13 / C01). Fully
/// concrete state (62 held, 62 queued): symex folds it to constants.
pub fn budget_many() {
    const N: usize = BUDGET + 1;
    gh::reset();
    #[cfg(futures_buffered_verif_model)]
    v::model_waker::set_big_queue(true);
    let gh = g();
    let t = nd::below(2) as usize;
    let w = gh::task_waker(t);
    let mut q = [QEntry { slot: 0, inflight: false }; N];
    let mut k = 0;
    while k < N {
        q[k].slot = k;
        k += 1;
    }
    let mut f: FuturesUnorderedBounded<Idle> = v::fub_from_parts(N, |_| Ok(Idle), N, N, &q, &w, false);
    gh.task_wakes = [0; 2];
    let mut cx = Context::from_waker(&w);
    let r = Pin::new(&mut f).poll_next(&mut cx);
    vassert!(matches!(r, Poll::Pending), "C02:a pending child produced an item");
    vassert!(gh.total_child_polls <= BUDGET, "C13:the per-poll budget of child polls was not respected");
    if gh.total_child_polls < N {
        vassert!(gh.task_wakes[t] >= 1, "C13:poll stopped at its budget with notified children still queued, task not woken");
        vassert!(gh.task_wakes[t] >= 1, "C01:poll stopped at its budget with notified children still queued, task not woken");
        vcover!(true, "cover:budget_exhausted");
    }
    vassert!(gh.task_wakes[1 - t] == 0, "C01:a task waker that was never registered was invoked");
    core::mem::forget(f);
}

/// An EMPTY collection whose ready queue still holds more stale entries (wakers
/// of finished children invoked after their completion) than the per-poll
/// budget: the poll must answer `Ready(None)` at once - never `Pending` - and
/// poll nothing (C02 "None iff empty", C05). Fully concrete state.
pub fn stale_many() {
    const N: usize = BUDGET + 1;
    gh::reset();
    #[cfg(futures_buffered_verif_model)]
    v::model_waker::set_big_queue(true);
    let gh = g();
    let t = nd::below(2) as usize;
    let w = gh::task_waker(t);
    let mut q = [QEntry { slot: 0, inflight: false }; N];
    let mut k = 0;
    while k < N {
        q[k].slot = k;
        k += 1;
    }
    let reg = nd::flag();
    let mut f: FuturesUnorderedBounded<Idle> = v::fub_from_parts(N, |i| Err(i + 1), 0, N, &q, &w, reg);
    gh.task_wakes = [0; 2];
    vassert!(f.is_empty() && f.len() == 0, "C15:len/is_empty wrong on an empty collection");
    let mut cx = Context::from_waker(&w);
    let r = Pin::new(&mut f).poll_next(&mut cx);
    vassert!(matches!(r, Poll::Ready(None)), "C02:an empty collection (stale wake-ups queued) did not answer Ready(None)");
    vassert!(gh.total_child_polls == 0, "C05:a vacated slot was polled");
    vassert!(gh.task_wakes[0] == 0 && gh.task_wakes[1] == 0, "C14:an empty collection woke a task");
    vcover!(true, "cover:stale_many");
    core::mem::forget(f);
}

/// a child that wakes itself on every poll (`victim == false`) or sleeps and
/// counts its polls (`victim == true`)
pub struct Busy {
    pub victim: bool,
}
static mut VICTIM_POLLS: usize = 0;

impl core::future::Future for Busy {
    type Output = u8;
    fn poll(self: Pin<&mut Self>, cx: &mut Context<'_>) -> Poll<u8> {
        let gh = g();
        gh.total_child_polls += 1;
        if self.victim {
            unsafe { VICTIM_POLLS += 1 };
        } else {
            gh.child_wakes += 1;
            cx.waker().wake_by_ref();
        }
        Poll::Pending
    }
}

/// No starvation at the budget boundary: BUDGET children that wake themselves
/// on every poll are queued AHEAD of a woken victim (position BUDGET+1). One
/// poll: bounded work, the task is woken, and the victim - if the call did not
/// reach it - is now at the FRONT of the ready queue (the children polled in
/// this call queued up behind it), so the next call polls it first. A victim
/// that is sent to the back again would be overtaken on every call.
pub fn budget_fifo() {
    const N: usize = BUDGET + 1;
    gh::reset();
    #[cfg(futures_buffered_verif_model)]
    v::model_waker::set_big_queue(true);
    unsafe { VICTIM_POLLS = 0 };
    let gh = g();
    let t = nd::below(2) as usize;
    let w = gh::task_waker(t);
    let mut q = [QEntry { slot: 0, inflight: false }; N];
    let mut k = 0;
    while k < N {
        q[k].slot = k;
        k += 1;
    }
    let mut f: FuturesUnorderedBounded<Busy> = v::fub_from_parts(N, |i| Ok(Busy { victim: i == N - 1 }), N, N, &q, &w, false);
    gh.task_wakes = [0; 2];
    let mut cx = Context::from_waker(&w);
    let r = Pin::new(&mut f).poll_next(&mut cx);
    vassert!(matches!(r, Poll::Pending), "C02:a pending child produced an item");
    vassert!(gh.total_child_polls <= BUDGET + 1, "C13:the per-poll budget of child polls was not respected");
    vassert!(gh.task_wakes[t] >= 1, "C13:poll stopped with notified children still queued, task not woken");
    let polled = unsafe { VICTIM_POLLS };
    if polled == 0 {
        let s = snap(&mut f, N, t);
        vassert!(s.qlen == N, "C01:a notified child was lost from the ready queue");
        vassert!(s.q[0].slot == N - 1, "C13:a woken child that was not reached lost its place in the ready queue to children polled in this call (overtaken on every call: starvation)");
        vcover!(true, "cover:victim_waits_at_front");
    }
    core::mem::forget(f);
}
