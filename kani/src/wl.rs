//! Layer W: shape harnesses on the REAL `waker_list.rs` (real cordyceps,
//! diatomic-waker, spin) with Kani's memory-safety checks ON -- the sequential
//! part of C03: reference counting, header-pointer arithmetic for every slot
//! index, the block is released exactly once and only when the collection and
//! every outstanding waker are gone, a wake after the collection is gone
//! touches nothing but (possibly) the last registered task waker.
//!
//! The same functions run on the reference model (Layer U build) as a
//! refinement check of the model's observable behaviour.
#![allow(static_mut_refs)]

use crate::gh::{self, g};
use crate::nd;
use crate::{vassert, vcover};
use core::task::Waker;
use futures_buffered::verif::{self as v, RawList};

fn blocks() -> (usize, usize) {
    v::probe_counts()
}

/// lifecycle shape: list of capacity `cap`; push i; pop -> borrowed waker of i;
/// clone it (twice, symbolically); register A (symbolically); then the list
/// and the clones die in a symbolic order, with wakes in between.
pub fn lifecycle(cap: usize) {
    gh::reset();
    let gh = g();
    let (a0, f0) = blocks();
    let mut list = RawList::new(cap);
    vassert!(blocks() == (a0 + 1, f0), "C03:construction did not allocate exactly one shared block");
    let i = nd::below(cap as u8) as usize;
    let ta = gh::task_waker(0);
    let reg = nd::flag();
    if reg {
        list.register(&ta);
    }
    list.push(i);
    let popped = list.pop();
    let mut w1: Option<Waker> = None;
    let mut w2: Option<Waker> = None;
    match popped {
        Some((k, w)) => {
            vassert!(k == i, "C03:pop returned another slot than the one pushed");
            // the borrowed waker does not own a count; clones do
            w1 = Some((*w).clone());
            if nd::flag() {
                w2 = Some((*w).clone());
            }
        }
        None => vassert!(false, "C01:pushed slot not returned by pop"),
    }
    vassert!(list.pop().is_none(), "C12:slot queued twice");
    let mut list = Some(list);
    // three rounds: in each, one owner dies (symbolic choice) or a wake happens first
    let mut round = 0;
    while round < 3 {
        let wakes_before = gh.task_wakes[0];
        let act = nd::below(5);
        match act {
            0 => {
                // the collection goes away
                if let Some(l) = list.take() {
                    drop(l);
                }
            }
            1 => {
                if let Some(w) = w1.take() {
                    drop(w);
                }
            }
            2 => {
                if let Some(w) = w2.take() {
                    drop(w);
                }
            }
            3 => {
                // wake_by_ref through a clone (collection possibly gone already)
                if let Some(w) = &w1 {
                    w.wake_by_ref();
                    if list.is_none() {
                        vcover!(true, "cover:wake_after_collection_gone");
                    }
                }
            }
            _ => {
                // wake by value consumes the clone
                if let Some(w) = w2.take() {
                    w.wake();
                }
            }
        }
        vassert!(gh.task_wakes[1] == 0, "C03:a waker that was never registered was invoked");
        vassert!(gh.task_wakes[0] <= wakes_before + 1, "C14:more than one task wake for one child wake");
        vassert!(reg || gh.task_wakes[0] == 0, "C03:task woken although none was registered");
        let owners = list.is_some() as usize + w1.is_some() as usize + w2.is_some() as usize;
        let (a, f) = blocks();
        vassert!(a == a0 + 1, "C03:shared block allocated again");
        if owners > 0 {
            vassert!(f == f0, "C03:shared block released while the collection or a waker still refers to it");
        } else {
            vassert!(f == f0 + 1, "C03:shared block not released exactly once when the last owner went away");
        }
        round += 1;
    }
    // release whatever is left
    drop(list.take());
    drop(w1.take());
    drop(w2.take());
    let (a, f) = blocks();
    vassert!(a == a0 + 1 && f == f0 + 1, "C03:shared block not released exactly once (leak or double free)");
    vcover!(true, "cover:end");
    core::mem::forget(ta);
}

/// FIFO + coalescing + registration shape: the observable behaviour the upper
/// layers rely on (refinement of the reference model)
pub fn fifo(cap: usize) {
    gh::reset();
    let gh = g();
    let mut list = RawList::new(cap);
    let ta = gh::task_waker(0);
    let tb = gh::task_waker(1);
    let i = nd::below(cap as u8) as usize;
    let j = nd::below(cap as u8) as usize;
    list.register(&ta);
    // waker changes between polls: the latest registration wins
    let second = nd::flag();
    if second {
        list.register(&tb);
    }
    let wi = list.waker(i);
    let wj = list.waker(j);
    wi.wake_by_ref();
    let t = if second { 1 } else { 0 };
    vassert!(gh.task_wakes[t] == 1 && gh.task_wakes[1 - t] == 0, "C01:a child wake did not notify the most recently registered task waker");
    wj.wake_by_ref();
    wi.wake_by_ref();
    vassert!(gh.task_wakes[t] == 1, "C14:task notified again without a new registration");
    // FIFO order, coalesced duplicates
    match list.pop() {
        Some((k, _)) => vassert!(k == i, "C13:ready queue is not FIFO"),
        None => vassert!(false, "C01:woken slot not queued"),
    }
    if i != j {
        match list.pop() {
            Some((k, _)) => vassert!(k == j, "C13:ready queue is not FIFO"),
            None => vassert!(false, "C01:woken slot not queued"),
        }
    }
    vassert!(list.pop().is_none(), "C12:a repeated wake queued the slot twice");
    // re-arm: register again, wake again
    list.register(&ta);
    wi.wake_by_ref();
    vassert!(gh.task_wakes[0] == if second { 1 } else { 2 }, "C01:wake after re-registration did not notify the task");
    vcover!(i != j, "cover:two_slots");
    drop(list);
    core::mem::forget(ta);
    core::mem::forget(tb);
}

/// concrete-order lifecycle shapes (the order in which the collection and the
/// clone die is fixed per shape; slot index and registration are symbolic)
pub fn shape(cap: usize, order: u8) {
    gh::reset();
    gh::track_layouts(true);
    let gh = g();
    let (a0, f0) = blocks();
    let mut list = RawList::new(cap);
    let i = nd::below(cap as u8) as usize;
    let ta = gh::task_waker(0);
    let reg = nd::flag();
    if reg {
        list.register(&ta);
    }
    list.push(i);
    let w1 = match list.pop() {
        Some((k, w)) => {
            vassert!(k == i, "C03:pop returned another slot than the one pushed");
            (*w).clone()
        }
        None => {
            vassert!(false, "C01:pushed slot not returned by pop");
            return;
        }
    };
    vassert!(blocks() == (a0 + 1, f0), "C03:block count wrong while owners exist");
    match order {
        0 => {
            // collection first; the clone keeps the block alive; a late wake is harmless
            drop(list);
            vassert!(blocks() == (a0 + 1, f0), "C03:shared block released while a waker still refers to it");
            w1.wake_by_ref();
            vassert!(gh.task_wakes[0] == reg as usize, "C03:wake after the collection is gone did something else than waking the registered task");
            drop(w1);
        }
        1 => {
            // clone first
            w1.wake_by_ref();
            drop(w1);
            vassert!(blocks() == (a0 + 1, f0), "C03:shared block released while the collection still refers to it");
            drop(list);
        }
        2 => {
            // wake by value consumes the last owner
            drop(list);
            w1.wake();
            vassert!(gh.task_wakes[0] == reg as usize, "C03:wake after the collection is gone did something else than waking the registered task");
        }
        _ => {
            // redundant wakes of an ALREADY QUEUED slot: by ref, then by value
            // (consumes the clone); then the collection goes away
            list.push(i);
            let w2 = w1.clone();
            w1.wake_by_ref();
            w2.wake();
            vassert!(gh.task_wakes[0] == 0, "C14:wake of an already queued slot notified the task");
            vassert!(blocks() == (a0 + 1, f0), "C03:shared block released while owners exist");
            w1.wake();
            vassert!(blocks() == (a0 + 1, f0), "C03:shared block released while the collection still refers to it");
            drop(list);
        }
    }
    vassert!(gh.task_wakes[1] == 0, "C03:a waker that was never registered was invoked");
    vassert!(blocks() == (a0 + 1, f0 + 1), "C03:shared block not released exactly once (leak or double free)");
    vassert!(!gh::layout_mismatch(), "C03:shared block released with a layout different from the one it was allocated with");
    gh::track_layouts(false);
    vcover!(true, "cover:end");
    core::mem::forget(ta);
}

/// layout arithmetic of the REAL list for every capacity up to 2^32: the header,
/// every slot 0..=cap (slot `cap` is the queue's stub node) lie inside the
/// allocated block, suitably aligned, without overlap
#[cfg(not(futures_buffered_verif_model))]
pub fn layout_arith() {
    let cap = nd::usize_any();
    nd::assume(cap <= 1usize << 32, "cap bound");
    let (size, align, off, isz, ial, hsz) = v::real_layout(cap);
    vassert!(isz > 0 && ial > 0 && isz % ial == 0, "C03:slot size is not a multiple of its alignment");
    vassert!(off >= hsz, "C03:slot 0 overlaps the header");
    vassert!(off % ial == 0 && align % ial == 0, "C03:slots are misaligned inside the block");
    vassert!(off + (cap + 1) * isz <= size, "C03:the last slot (the queue's stub node) lies outside the allocated block");
    let i = nd::usize_any();
    nd::assume(i <= cap, "slot index");
    vassert!(off + i * isz + isz <= size, "C03:a slot lies outside the allocated block");
    // header recovery used by every waker: (slot address - i slots) - off
    let base = 0x1000usize;
    let slot_addr = base + off + i * isz;
    vassert!(slot_addr - i * isz - off == base, "C03:header pointer arithmetic is not the inverse of the slot address");
    vcover!(cap == 0, "cover:cap0");
    vcover!(cap == 1usize << 32, "cover:cap_max");
}
#[cfg(futures_buffered_verif_model)]
pub fn layout_arith() {}

/// The REAL stack end to end (real waker_list + cordyceps + diatomic-waker + spin
/// under the real `FuturesUnorderedBounded`), memory-safety checks on:
/// new(1); push; one poll_next with a symbolic child answer (ready / pending /
/// pending + self-wake) and a symbolic task waker; [second poll]; drop.
pub fn real_stack(polls: usize) {
    use crate::child::Fut;
    use core::pin::Pin;
    use core::task::{Context, Poll};
    use futures_buffered::FuturesUnorderedBounded;
    use futures_core::Stream;
    gh::reset();
    let gh = g();
    gh.selfwake_left = 1;
    let (a0, f0) = blocks();
    let mut f: FuturesUnorderedBounded<Fut> = FuturesUnorderedBounded::new(1);
    f.push(Fut::new(0));
    gh.slot_of[0] = 0;
    gh.set_needs(0, 0, true);
    let mut k = 0;
    let mut yielded = false;
    while k < polls {
        let t = nd::below(2) as usize;
        let w = gh::task_waker(t);
        let before = gh.task_wakes[t];
        let polls_before = gh.polls[0];
        let wakes_before = gh.child_wakes;
        let mut cx = Context::from_waker(&w);
        let r = Pin::new(&mut f).poll_next(&mut cx);
        match r {
            Poll::Ready(Some(x)) => {
                vassert!(x == 0 && gh.done[0] && !yielded, "C02:yielded an item no held future produced (or twice)");
                vassert!(gh.drops[0] == 1, "C05:finished future not dropped when its output is handed out");
                yielded = true;
            }
            Poll::Ready(None) => vassert!(yielded, "C02:Ready(None) while a future is held"),
            Poll::Pending => {
                vassert!(!yielded, "C02:Pending although nothing is held");
                // self-wake during the poll => the task waker of THIS poll was invoked
                if gh.needs(0, 0) {
                    vassert!(gh.task_wakes[t] > before, "C01:child woke itself during the poll and was not polled again, task not woken");
                }
                if gh.child_wakes == wakes_before {
                    vassert!(gh.task_wakes[t] == before, "C14:task woken although no child waker was invoked");
                }
                vassert!(gh.polls[0] <= polls_before + 2, "C12:child polled more often than it was notified");
            }
        }
        core::mem::forget(w);
        k += 1;
    }
    vassert!(blocks() == (a0 + 1, f0), "C03:shared block released while the collection lives");
    drop(f);
    vassert!(blocks() == (a0 + 1, f0 + 1), "C03:shared block not released exactly once");
    vassert!(yielded || gh.drops[0] == 1, "C06:held future not dropped with the collection");
    vcover!(yielded, "cover:yielded");
    vcover!(!yielded, "cover:not_yielded");
}
