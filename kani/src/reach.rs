//! History witnesses ("inv_reach"): short symbolic histories through the PUBLIC
//! API from a freshly constructed collection; after every operation the state
//! must satisfy the representation invariant INV that the step harnesses
//! assume for their pre-states. They guard against an invariant that is too
//! STRONG (a reachable state excluded from the step harnesses).
#![allow(static_mut_refs)]

use crate::child::Fut;
use crate::fub;
use crate::gh::{self, g};
use crate::nd;
use crate::{vassert, vcover};
use core::pin::Pin;
use core::task::{Context, Poll};
use futures_buffered::verif as v;
use futures_buffered::FuturesUnorderedBounded;
use futures_core::Stream;

/// bounded collection: `steps` operations out of {push, poll, wake of a
/// retained (possibly stale) child waker}
pub fn bounded(cap: usize, steps: usize) {
    gh::reset();
    let gh = g();
    gh.selfwake_left = 1;
    let mut f: FuturesUnorderedBounded<Fut> = FuturesUnorderedBounded::new(cap);
    // a retained waker of an arbitrary slot (stale while the slot is vacant)
    let hs = nd::below(cap as u8) as usize;
    gh::install_handle(0, v::fub_child_waker(&f, hs), 0, hs as u8);
    let mut next_id = 0u8;
    let mut sleeping = false;
    let mut last_t = 0usize;
    let mut wakes_at_pending = [0usize; 2];
    let mut k = 0;
    while k < steps {
        let op = nd::below(3);
        match op {
            0 => {
                if (next_id as usize) < gh::NCH {
                    // the slot a push will use is the free-list head
                    let s0 = fub::snap(&mut f, cap, last_t);
                    let slot = s0.free_head;
                    let id = next_id;
                    if f.try_push(Fut::new(id)).is_ok() {
                        gh.slot_of[id as usize] = slot as u8;
                        gh.group_of[id as usize] = 0;
                        gh.set_needs(0, slot % gh::MAXS, true);
                        gh.set_fresh(0, slot % gh::MAXS, true);
                        next_id += 1;
                    }
                }
            }
            1 => {
                let t = nd::below(2) as usize;
                let w = gh::task_waker(t);
                let before = gh.task_wakes;
                let mut cx = Context::from_waker(&w);
                let r = Pin::new(&mut f).poll_next(&mut cx);
                sleeping = matches!(r, Poll::Pending);
                last_t = t;
                wakes_at_pending = before;
                core::mem::forget(w);
            }
            _ => {
                gh::env_fire(0);
            }
        }
        // INV after every operation
        let s = fub::snap(&mut f, cap, last_t);
        fub::check_inv_post(&s, 0, fub::M_INV);
        if sleeping {
            let woken = gh.task_wakes[last_t] > wakes_at_pending[last_t];
            vassert!(woken || s.registered, "REACH:I4a does not hold in a reachable state");
            if !woken {
                let occ = fub::snap_occ_pub(&s);
                let mut q = 0;
                while q < cap {
                    if q < s.qlen {
                        let sl = s.q[q].slot % gh::MAXS;
                        vassert!(!occ[sl] || gh.is_fresh(0, sl), "REACH:I4b does not hold in a reachable state");
                    }
                    q += 1;
                }
            }
        }
        k += 1;
    }
    vcover!(sleeping, "cover:reach_sleeping");
    vcover!(next_id >= 2, "cover:reach_two_pushes");
    gh::drop_all_handles();
    core::mem::forget(f);
}

