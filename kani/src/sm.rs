//! Layer S: the pinned slot map by itself (`PinSlotMap<Tok8>` through the
//! crate's own `FuturesUnorderedBounded` push/remove paths is covered elsewhere);
//! here: ONE insert / remove / get with an arbitrary key from an arbitrary
//! valid representation state, capacity up to 4.
#![allow(static_mut_refs)]

use crate::fub;
use crate::gh::{self, MAXS};
use crate::nd;
use crate::{vassert, vcover};
use futures_buffered::verif as v;

pub fn step(cap: usize) {
    gh::reset();
    // symbolic valid state
    let mut occ = [false; MAXS];
    let mut nf = [0usize; MAXS];
    let mut filled = 0;
    let mut i = 0;
    while i < cap {
        occ[i] = nd::flag();
        if occ[i] {
            filled += 1;
        } else {
            nf[i] = nd::below(cap as u8 + 1) as usize;
        }
        i += 1;
    }
    let free_head = nd::below(cap as u8 + 1) as usize;
    nd::assume(fub::slotmap_inv(cap, &occ, &nf, free_head, filled), "I1");
    let mut m = v::SlotMapU8::from_parts(cap, |i| if occ[i] { Ok(10 + i as u8) } else { Err(nf[i]) }, free_head);
    vassert!(m.len() == filled && m.is_empty() == (filled == 0) && m.capacity() == cap, "C15:slot map observers differ from the number of occupied slots");
    let op = nd::below(3);
    let key = nd::below(cap as u8 + 2) as usize;
    match op {
        0 => {
            // insert
            let r = m.insert(99);
            match r {
                Ok(k) => {
                    vassert!(filled < cap, "C15:insert accepted although the map is full");
                    vassert!(k == free_head && k < cap && !occ[k % MAXS], "C02:insert did not use the free-list head");
                    vassert!(m.get(k) == Some(99), "C02:inserted value not stored");
                    vassert!(m.len() == filled + 1, "C15:len not incremented by insert");
                    let mut i = 0;
                    while i < cap {
                        if i != k {
                            vassert!(m.get(i) == if occ[i] { Some(10 + i as u8) } else { None }, "C02:insert disturbed another slot");
                        }
                        i += 1;
                    }
                    vcover!(true, "cover:insert_ok");
                }
                Err(x) => {
                    vassert!(filled == cap && x == 99, "C15:insert refused although there is room (or returned another value)");
                    vassert!(m.len() == filled, "C15:refused insert changed len");
                    vcover!(true, "cover:insert_refused");
                }
            }
        }
        1 => {
            m.remove(key);
            let was = key < cap && occ[key % MAXS];
            vassert!(m.len() == filled - was as usize, "C15:len wrong after remove");
            let mut i = 0;
            while i < cap {
                let expect = if occ[i] && i != key { Some(10 + i as u8) } else { None };
                vassert!(m.get(i) == expect, "C02:remove disturbed another slot or did not vacate its own");
                i += 1;
            }
            vcover!(was, "cover:remove_occupied");
            vcover!(!was, "cover:remove_vacant_or_out_of_range");
        }
        _ => {
            let expect = if key < cap && occ[key % MAXS] { Some(10 + key as u8) } else { None };
            vassert!(m.get(key) == expect, "C02:get returned a value that is not held (or missed one)");
        }
    }
    // the representation invariant is re-established
    let mut occ2 = [false; MAXS];
    let mut nf2 = [0usize; MAXS];
    let mut i = 0;
    while i < cap {
        match m.next_free(i) {
            None => occ2[i] = true,
            Some(n) => nf2[i] = n,
        }
        i += 1;
    }
    vassert!(fub::slotmap_inv(cap, &occ2, &nf2, m.free_head(), m.len()), "C02:slot map invariant broken (free list / occupied count)");
    vassert!(fub::slotmap_inv(cap, &occ2, &nf2, m.free_head(), m.len()), "C15:slot map invariant broken (free list / occupied count)");
}
