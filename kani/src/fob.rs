//! Step scenarios on `FuturesOrderedBounded<Fut>`: a deque of futures whose
//! outputs leave in queue order whatever the completion order.
//!
//! Ghost: every element (running future or parked output) has an *offset* =
//! its distance from the front. INV_ordered = INV_bounded of the inner
//! collection, plus: the stored position of every element is
//! `next_outgoing + offset` (wrapping) and the offsets are exactly 0..len-1.
//! `next_outgoing` is an arbitrary 64-bit word, so the wrap and the re-basing
//! block (top bit set) are covered for every counter value.
#![allow(static_mut_refs)]

use crate::child::Fut;
use crate::fub::{self, Pre};
use crate::gh::{self, g, MAXS};
use crate::nd;
use crate::{vassert, vcover};
use core::pin::Pin;
use core::task::{Context, Poll};
use futures_buffered::verif as v;
use futures_buffered::FuturesOrderedBounded;
use futures_core::Stream;

pub const MAXP: usize = 2;
/// token of the parked output with offset o
pub const PARK: u8 = 100;

pub struct OCfg {
    pub cap: usize,
    /// parked outputs in the pre-state: exactly this many (concrete per
    /// harness: the heap's sift loops then run over concrete indices)
    pub max_parked: usize,
    pub selfwakes: u8,
}

pub struct OPre {
    pub p: Pre,
    pub out: usize,
    pub n_parked: usize,
    /// offset of the future in slot i
    pub off: [usize; MAXS],
    /// offsets of the parked outputs
    pub poff: [usize; MAXP],
    pub len: usize,
}

pub fn gen_opre(c: &OCfg) -> OPre {
    gen_opre_with(c, fub::gen_pre(c.cap, false))
}

/// as `gen_opre`, the ready queue concretely empty
pub fn gen_opre_q0(c: &OCfg) -> OPre {
    gen_opre_with(c, fub::gen_pre_q(c.cap, false, 0))
}

/// narrow pre-state for the deep `FuturesOrdered` stack: every slot holds a
/// future, exactly one of them (any) is queued; queue places, the parked
/// outputs, registration and ghost flags stay arbitrary
pub fn gen_opre_narrow(c: &OCfg) -> OPre {
    let mut p = fub::fixed_pre(c.cap, false);
    let mut i = 0;
    while i < c.cap {
        p.occ[i] = true;
        i += 1;
    }
    p.filled = c.cap;
    p.free_head = c.cap;
    p.qlen = 1;
    p.q[0].slot = nd::below(c.cap as u8) as usize;
    p.reg = nd::flag();
    p.reg_t = nd::below(2) as usize;
    gen_opre_with(c, p)
}

fn gen_opre_with(c: &OCfg, p: Pre) -> OPre {
    gen_opre_with_out(c, p, None)
}

/// `out`: concrete position counter (nothing is drawn for it, so that the tape of a
/// counterexample lines up with the draws of the native replay)
fn gen_opre_with_out(c: &OCfg, p: Pre, out: Option<usize>) -> OPre {
    fub::gen_ghost(&p, 0);
    let n_parked = c.max_parked;
    let len = p.filled + n_parked;
    let mut o = OPre {
        p,
        out: match out {
            Some(x) => x,
            None => nd::usize_any(),
        },
        n_parked,
        off: [0; MAXS],
        poff: [0; MAXP],
        len,
    };
    // offsets: a bijection between the elements and 0..len-1
    let mut seen = [false; MAXS + MAXP];
    let mut i = 0;
    while i < c.cap {
        if p.occ[i] {
            let x = nd::below((c.cap + c.max_parked) as u8) as usize;
            nd::assume(x < len && !seen[x], "ord:offsets");
            seen[x] = true;
            o.off[i] = x;
        }
        i += 1;
    }
    let mut k = 0;
    while k < c.max_parked {
        if k < n_parked {
            let x = nd::below((c.cap + c.max_parked) as u8) as usize;
            nd::assume(x < len && !seen[x], "ord:offsets");
            seen[x] = true;
            o.poff[k] = x;
        }
        k += 1;
    }
    o
}

pub fn build(c: &OCfg, o: &OPre) -> FuturesOrderedBounded<Fut> {
    build_g(c, o, Fut::new)
}

/// as `build` for any scripted future type whose output is a `u8`-like token
pub fn build_g<F>(c: &OCfg, o: &OPre, mk: impl Fn(u8) -> F) -> FuturesOrderedBounded<F>
where
    F: core::future::Future,
    F::Output: From8,
{
    let gh = g();
    let p = &o.p;
    let mut i = 0;
    while i < c.cap {
        if p.occ[i] {
            gh.slot_of[i] = i as u8;
            gh.group_of[i] = 0;
        }
        i += 1;
    }
    let w = gh::task_waker(p.reg_t);
    let q = p.q;
    let mut f = v::fob_from_parts(
        c.cap,
        |i| {
            if p.occ[i] {
                Ok((mk(i as u8), o.out.wrapping_add(o.off[i])))
            } else {
                Err(p.nf[i])
            }
        },
        p.free_head,
        p.qlen,
        &q,
        &w,
        p.reg,
        // room for every element: the growth path of the heap is not the subject here
        c.cap + c.max_parked,
        o.out.wrapping_add(o.len),
        o.out,
    );
    gh.task_wakes = [0; 2];
    let mut k = 0;
    while k < c.max_parked {
        if k < o.n_parked {
            f.verif_park(o.out.wrapping_add(o.poff[k]), <F::Output as From8>::from8(PARK + o.poff[k] as u8));
        }
        k += 1;
    }
    let mut i = 0;
    while i < c.cap {
        if p.occ[i] && !gh.is_fresh(0, i) {
            if let Some((ch, _)) = v::fob_peek(&f, i) {
                gh.addr[i] = ch as *const F as usize;
            }
        }
        i += 1;
    }
    f
}

/// output types a parked token can be made of
pub trait From8 {
    fn from8(x: u8) -> Self;
}
impl From8 for u8 {
    fn from8(x: u8) -> u8 {
        x
    }
}
impl From8 for Result<u8, u8> {
    fn from8(x: u8) -> Self {
        Ok(x)
    }
}

/// offset (distance from the front) of the element stored with position `pos`
fn offset_of(pos: usize, out: usize) -> usize {
    pos.wrapping_sub(out)
}

/// post-state: every element sits `shift` places nearer to the front than in
/// the pre-state (`shift` = 1 after a yield), elements that completed during
/// the call are parked, nothing else changed; returns the number of elements
fn check_positions(c: &OCfg, o: &OPre, f: &FuturesOrderedBounded<Fut>, shift: usize, yielded_off0: bool, extra_parked_ok: bool) -> usize {
    let gh = g();
    let (inc, out) = f.verif_counters();
    let mut count = 0;
    // running futures
    let mut i = 0;
    while i < c.cap {
        if let Some((ch, pos)) = v::fob_peek(f, i) {
            let id = ch.id as usize;
            if id < c.cap {
                vassert!(o.p.occ[id], "C02:holds a future that was never pushed");
                vassert!(
                    offset_of(pos, out) == o.off[id].wrapping_sub(shift),
                    "C04:a running future changed its place in the queue"
                );
                vassert!(
                    offset_of(pos, out) == o.off[id].wrapping_sub(shift),
                    "C02:ordered-collection invariant broken (stored position of a running future): its output will be lost or duplicated"
                );
                count += 1;
            }
        }
        i += 1;
    }
    // parked outputs
    let hl = f.verif_heap_len();
    vassert!(hl <= c.max_parked + c.cap, "C16:more parked outputs than elements");
    let mut k = 0;
    while k < c.max_parked + c.cap {
        if k < hl {
            if let Some((pos, tok)) = f.verif_heap_at(k) {
                let tok = *tok;
                let off = offset_of(pos, out);
                if tok >= PARK {
                    vassert!(off == ((tok - PARK) as usize).wrapping_sub(shift), "C04:a parked output changed its place in the queue");
                    vassert!(off == ((tok - PARK) as usize).wrapping_sub(shift), "C02:ordered-collection invariant broken (stored position of a parked output): outputs will be lost or never released");
                } else {
                    // completed during this call, out of turn
                    let id = tok as usize;
                    vassert!(extra_parked_ok && id < c.cap && o.p.occ[id] && gh.done[id], "C02:parked output that no held future produced");
                    vassert!(off == o.off[id].wrapping_sub(shift), "C04:an output was parked at another place than its future's");
                }
                count += 1;
            }
        }
        k += 1;
    }
    vassert!(inc.wrapping_sub(out) == count, "C04:position counters do not delimit the held elements");
    let _ = yielded_off0;
    count
}

pub fn step_poll(c: &OCfg) {
    gh::reset();
    let o = gen_opre(c);
    let mut f = build(c, &o);
    let gh = g();
    gh.selfwake_left = c.selfwakes;
    let t = nd::below(2) as usize;
    let w = gh::task_waker(t);
    vassert!(f.len() == o.len && f.is_empty() == (o.len == 0), "C15:len/is_empty differ from the number of held elements");
    vassert!(f.size_hint() == (o.len, Some(o.len)), "C17:size_hint differs from the number of elements still to be yielded");
    let mut cx = Context::from_waker(&w);
    let r = Pin::new(&mut f).poll_next(&mut cx);
    match r {
        Poll::Ready(Some(x)) => {
            // the element at the front, and only it
            if x >= PARK {
                vassert!((x - PARK) as usize == 0, "C04:yielded a parked output that is not at the front");
            } else {
                let id = x as usize;
                vassert!(id < c.cap && o.p.occ[id] && gh.done[id] && gh.polls_in_call[id] >= 1, "C02:yielded an output no held future produced in this call");
                vassert!(o.off[id] == 0, "C04:yielded an output out of queue order");
                vassert!(gh.drops[id] == 1, "C05:finished future not dropped when its output is handed out");
            }
            let n = check_positions(c, &o, &f, 1, true, true);
            vassert!(n + 1 == o.len, "C02:an element was lost or duplicated by a yield");
            vcover!(x >= PARK, "cover:yield_parked");
            vcover!(x < PARK, "cover:yield_running");
            vcover!(o.out >> 63 == 1, "cover:yield_rebased");
        }
        Poll::Ready(None) => {
            vassert!(o.len == 0, "C02:Ready(None) while elements are held");
            vcover!(true, "cover:none");
        }
        Poll::Pending => {
            vassert!(o.len > 0, "C02:Pending although nothing is held");
            let n = check_positions(c, &o, &f, 0, false, true);
            vassert!(n == o.len, "C02:an element was lost or duplicated by a Pending poll");
            // the front element is still running (else it would have been yielded)
            let mut k = 0;
            while k < c.max_parked {
                vassert!(o.poff[k] != 0, "C04:Pending although the output at the front of the queue is parked and ready");
                k += 1;
            }
            let mut i = 0;
            while i < c.cap {
                if o.p.occ[i] && o.off[i] == 0 {
                    vassert!(!gh.done[i], "C04:Pending although the future at the front of the queue completed in this call");
                }
                i += 1;
            }
            vcover!(f.verif_heap_len() > o.n_parked, "cover:pending_parked_more");
            vcover!(o.out >> 63 == 1, "cover:pending_rebased");
        }
    }
    let l2 = f.len();
    vassert!(f.size_hint() == (l2, Some(l2)), "C17:size_hint differs from the number of elements still to be yielded");
    vassert!(f.is_empty() == (l2 == 0), "C15:is_empty inconsistent");
    core::mem::forget(f);
}

/// Step(try_push_back / try_push_front)
pub fn step_push(c: &OCfg) {
    gh::reset();
    let o = gen_opre(c);
    let mut f = build(c, &o);
    let gh = g();
    let id = c.cap; // the pushed future
    let front = nd::flag();
    let (inc0, out0) = f.verif_counters();
    let r = if front { f.try_push_front(Fut::new(id as u8)) } else { f.try_push_back(Fut::new(id as u8)) };
    let (inc1, out1) = f.verif_counters();
    match r {
        Ok(()) => {
            vassert!(o.p.filled < c.cap, "C15:push accepted although the collection is full");
            vassert!(f.len() == o.len + 1, "C15:len not incremented by an accepted push");
            let slot = o.p.free_head;
            match v::fob_peek(&f, slot % MAXS) {
                Some((ch, pos)) => {
                    vassert!(ch.id as usize == id, "C02:pushed future not held");
                    if front {
                        vassert!(pos == out1 && out1 == out0.wrapping_sub(1) && inc1 == inc0, "C04:push_front did not place the future ahead of everything held");
                    } else {
                        vassert!(pos == inc0 && inc1 == inc0.wrapping_add(1) && out1 == out0, "C04:push_back did not place the future behind everything held");
                    }
                }
                None => vassert!(false, "C02:pushed future not held"),
            }
            // everything else keeps its place relative to the old front
            let mut i = 0;
            while i < c.cap {
                if i != slot {
                    if let Some((ch, pos)) = v::fob_peek(&f, i) {
                        vassert!(pos.wrapping_sub(out0) == o.off[ch.id as usize % MAXS], "C04:a push moved another future in the queue");
                    }
                }
                i += 1;
            }
            vcover!(front, "cover:push_front");
            vcover!(!front, "cover:push_back");
        }
        Err(back) => {
            vassert!(o.p.filled == c.cap, "C15:push refused although there is room");
            vassert!(back.id as usize == id && gh.drops[id] == 0, "C15:refused try_push did not return the same future");
            vassert!(inc1 == inc0 && out1 == out0, "C15:refused push moved the position counters");
            vassert!(inc1 == inc0 && out1 == out0, "C02:refused push moved the position counters: no output will ever carry the skipped position, later outputs are never released");
            vassert!(f.len() == o.len, "C15:refused push changed len");
            core::mem::forget(back);
            vcover!(true, "cover:push_refused");
        }
    }
    vassert!(f.verif_heap_len() == o.n_parked, "C02:push changed the parked outputs");
    vassert!(gh.total_child_polls == 0, "C12:push polled a child");
    core::mem::forget(f);
}

/// Step(drop) with droppable outputs: every running future and every parked
/// output is dropped exactly once with the collection
pub fn step_drop(c: &OCfg) {
    use crate::child::{TFut, Tok};
    gh::reset();
    let o = gen_opre(c);
    let gh = g();
    let p = o.p;
    let w = gh::task_waker(p.reg_t);
    let q = p.q;
    let mut f: FuturesOrderedBounded<TFut> = v::fob_from_parts(
        c.cap,
        |i| if p.occ[i] { Ok((TFut::new(i as u8), o.out.wrapping_add(o.off[i]))) } else { Err(p.nf[i]) },
        p.free_head,
        p.qlen,
        &q,
        &w,
        p.reg,
        c.cap + c.max_parked,
        o.out.wrapping_add(o.len),
        o.out,
    );
    let mut k = 0;
    while k < c.max_parked {
        f.verif_park(o.out.wrapping_add(o.poff[k]), Tok::new((c.cap + k) as u8));
        k += 1;
    }
    drop(f);
    let mut i = 0;
    while i < c.cap {
        if p.occ[i] {
            vassert!(gh.drops[i] == 1, "C06:running future not dropped exactly once with the ordered collection");
        }
        i += 1;
    }
    let mut k = 0;
    while k < c.max_parked {
        vassert!(gh.tok_drops[c.cap + k] == 1, "C06:output parked out of turn not dropped exactly once with the ordered collection");
        k += 1;
    }
    vcover!(p.filled > 0, "cover:drop_with_running");
    core::mem::forget(w);
}

/// constructors succeed for every capacity, 0 included
pub fn construct(maxcap: u8) {
    gh::reset();
    let n = nd::below(maxcap + 1) as usize;
    let f: FuturesOrderedBounded<Fut> = FuturesOrderedBounded::new(n);
    vassert!(f.len() == 0 && f.is_empty(), "C15:fresh collection not empty");
    vcover!(n == 0, "cover:cap0");
    core::mem::forget(f);
}

/// the unbounded ordered collection: constructors succeed for every capacity
pub fn construct_unbounded(maxcap: u8) {
    gh::reset();
    let n = nd::below(maxcap + 1) as usize;
    let f: futures_buffered::FuturesOrdered<Fut> = futures_buffered::FuturesOrdered::with_capacity(n);
    vassert!(f.len() == 0 && f.is_empty(), "C15:fresh collection not empty");
    vcover!(n == 0, "cover:cap0");
    core::mem::forget(f);
}

/// Step(poll_next) then drop, with drop-counted outputs: whatever the poll does
/// (yield, park an output that completed out of turn, re-base the positions
/// with `mem::take` / `into_vec`), afterwards every output that exists - yielded,
/// parked before or during the call - and every future has been dropped exactly
/// once when the item and the collection are gone.
pub fn step_poll_drop(c: &OCfg) {
    step_poll_drop_out(c, None)
}

/// `out`: a concrete position counter (the re-basing block is then taken - or
/// skipped - concretely, which keeps raw-pointer rewrites of it decidable)
pub fn step_poll_drop_out(c: &OCfg, out: Option<usize>) {
    use crate::child::{TFut, Tok};
    gh::reset();
    let o = gen_opre_with_out(c, fub::gen_pre(c.cap, false), out);
    let gh = g();
    let p = o.p;
    let w = gh::task_waker(p.reg_t);
    let q = p.q;
    let mut i = 0;
    while i < c.cap {
        if p.occ[i] {
            gh.slot_of[i] = i as u8;
            gh.group_of[i] = 0;
        }
        i += 1;
    }
    let mut f: FuturesOrderedBounded<TFut> = v::fob_from_parts(
        c.cap,
        |i| if p.occ[i] { Ok((TFut::new(i as u8), o.out.wrapping_add(o.off[i]))) } else { Err(p.nf[i]) },
        p.free_head,
        p.qlen,
        &q,
        &w,
        p.reg,
        c.cap + c.max_parked,
        o.out.wrapping_add(o.len),
        o.out,
    );
    let mut k = 0;
    while k < c.max_parked {
        f.verif_park(o.out.wrapping_add(o.poff[k]), Tok::new((c.cap + k) as u8));
        k += 1;
    }
    gh.selfwake_left = c.selfwakes;
    let t = nd::below(2) as usize;
    let w2 = gh::task_waker(t);
    let mut cx = Context::from_waker(&w2);
    let r = Pin::new(&mut f).poll_next(&mut cx);
    vcover!(o.out >> 63 == 1 && matches!(r, Poll::Pending), "cover:pending_rebased");
    vcover!(matches!(r, Poll::Ready(Some(_))), "cover:yield");
    drop(r);
    drop(f);
    let mut i = 0;
    while i < c.cap {
        if p.occ[i] {
            vassert!(gh.drops[i] == 1, "C06:future not dropped exactly once (poll, then drop of the ordered collection)");
            if gh.done[i] {
                vassert!(gh.tok_drops[i] == 1, "C06:output of a future that completed in the call not dropped exactly once");
            }
        }
        i += 1;
    }
    let mut k = 0;
    while k < c.max_parked {
        vassert!(gh.tok_drops[c.cap + k] == 1, "C06:output parked out of turn not dropped exactly once (leaked or dropped twice by the poll / re-basing)");
        k += 1;
    }
    core::mem::forget(w);
    core::mem::forget(w2);
}
