//! Step scenarios on `MergeBounded<Src>` and `MergeUnbounded<Src>`.
//!
//! A source is a scripted stream of numbered items `(src, seq)`. Ghost:
//! `seq[src]` = next sequence number, `done[src]` = it answered None.
#![allow(static_mut_refs)]

use crate::child::Src;
#[allow(unused_imports)]
use futures_buffered::verif as vv;
use crate::fub::{self, Pre};
use crate::gh::{self, g, MAXS};
use crate::nd;
use crate::{vassert, vcover};
use core::pin::Pin;
use core::task::{Context, Poll};
use futures_buffered::verif as v;
use futures_buffered::{MergeBounded, MergeUnbounded};
use futures_core::Stream;

pub struct MCfg {
    pub cap: usize,
    pub selfwakes: u8,
    /// items the sources may yield in total during the call (bounds the loops)
    pub items: u8,
    pub quiet: bool,
}

fn mk(id: u8) -> Src {
    Src { id }
}

/// Step(poll_next) on the bounded merge
pub fn step_poll(c: &MCfg) {
    gh::reset();
    let p = fub::gen_pre(c.cap, false);
    fub::gen_ghost(&p, 0);
    let gh = g();
    // sources have yielded an arbitrary number of items before
    let mut i = 0;
    while i < c.cap {
        gh.seq[i] = nd::below(8);
        i += 1;
    }
    let seq0 = gh.seq;
    let inner = fub::build_g(&p, 0, 0, mk);
    let mut m = MergeBounded::verif_from_parts(inner);
    gh.selfwake_left = if c.quiet { 0 } else { c.selfwakes };
    gh.items_left = c.items;
    let t = nd::below(2) as usize;
    let w = gh::task_waker(t);
    let wakes0 = gh.task_wakes;
    let mut cx = Context::from_waker(&w);

    let a0 = gh::allocs();
    gh::alloc_track(true);
    let r = Pin::new(&mut m).poll_next(&mut cx);
    gh::alloc_track(false);
    vassert!(gh::allocs() == a0, "C18:MergeBounded allocated during poll_next");

    let woken_t = gh.task_wakes[t] > wakes0[t];
    let s = fub::snap(m.verif_inner(), c.cap, t);
    let occ = fub::snap_occ_pub(&s);
    fub::check_inv_post(&s, 0, fub::M_ALL);
    // a source is removed exactly when it answered None, and is dropped then
    let mut i = 0;
    while i < c.cap {
        if p.occ[i] {
            vassert!(occ[i] == !gh.done[i], "C11:a source is held after it ended, or was removed although it did not end");
            if gh.done[i] {
                vassert!(gh.drops[i] == 1, "C05:ended source not dropped by the call that observed its end");
                vassert!(gh.drops[i] == 1, "C06:ended source removed from the merge without being dropped exactly once (leak or double drop)");
            } else {
                vassert!(gh.drops[i] == 0, "C06:live source dropped");
            }
        } else {
            vassert!(!occ[i], "C11:a source appeared from nowhere");
        }
        i += 1;
    }
    match r {
        Poll::Ready(Some(x)) => {
            let src = (x >> 4) as usize;
            let sq = x & 15;
            vassert!(src < c.cap && p.occ[src], "C11:yielded an item no held source produced");
            vassert!(sq == seq0[src] & 15 && gh.seq[src] == seq0[src].wrapping_add(1), "C11:item yielded out of its source's order (or an item was lost)");
            // every other source yielded nothing
            let mut i = 0;
            while i < c.cap {
                if i != src {
                    vassert!(gh.seq[i] == seq0[i], "C11:an item of another source was pulled and dropped");
                }
                i += 1;
            }
            // the source that yielded is armed again
            vassert!(occ[src] && s.queued(src), "C01:source that yielded an item is not queued for its next item");
            gh.set_needs(0, src, true);
            vcover!(true, "cover:item");
        }
        Poll::Ready(None) => {
            vassert!(s.filled == 0, "C11:None although a source is still live");
            let mut i = 0;
            while i < c.cap {
                vassert!(gh.seq[i] == seq0[i], "C11:an item was pulled and dropped");
                i += 1;
            }
            vcover!(p.filled > 0, "cover:none_after_ends");
        }
        Poll::Pending => {
            vassert!(s.filled > 0, "C11:Pending although every source has ended");
            let mut i = 0;
            while i < c.cap {
                vassert!(gh.seq[i] == seq0[i], "C11:an item was pulled and dropped");
                if occ[i] && gh.polls_in_call[i] > 0 {
                    vassert!(gh.last_answer[i] == 1 || gh.last_answer[i] == 2, "C11:Pending although a polled source's last answer was not Pending");
                }
                i += 1;
            }
            // C01 at a Pending return
            vassert!(woken_t || s.registered, "C01:Pending, task neither woken nor registered");
            if !woken_t {
                let mut k = 0;
                while k < c.cap {
                    if k < s.qlen {
                        vassert!(!occ[s.q[k].slot % MAXS], "C01:Pending with a queued live source left un-polled, task not woken");
                    }
                    k += 1;
                }
            }
            if c.quiet {
                vassert!(!woken_t, "C14:task woken although no child waker was invoked");
            }
            vcover!(true, "cover:pending");
        }
    }
    // C12: only queued sources are polled
    let mut i = 0;
    while i < c.cap {
        if p.occ[i] {
            vassert!(gh.polls_in_call[i] == 0 || p.queued(i) || gh.child_wakes > 0, "C12:source polled without being queued or woken");
            if gh.child_wakes == 0 {
                vassert!(gh.polls_in_call[i] <= 1, "C12:source polled twice for one notification");
            }
        }
        i += 1;
    }
    core::mem::forget(m);
}

// ------------------------------------------------------------ unbounded merge

pub struct MUCfg {
    pub caps: [usize; 2],
    pub cursor: usize,
    pub selfwakes: u8,
    pub items: u8,
}

/// Step(poll_next) on `MergeUnbounded` with two groups; INV as for
/// `FuturesUnordered` (capacities increasing, cursor <= n, an empty group other
/// than the last only at the cursor).
///
/// C13 (no starvation across groups) as a ranking argument: a victim source
/// that is queued in group `gv` and is not polled by this call must be nearer
/// to its turn afterwards: rank = (cursor distance to gv, queue position).
pub fn step_poll_unbounded(c: &MUCfg) {
    gh::reset();
    let n = 2;
    let p0 = fub::gen_pre(c.caps[0], false);
    let p1 = fub::gen_pre(c.caps[1], false);
    let pre: [Pre; 2] = [p0, p1];
    let base = [0usize, c.caps[0]];
    fub::gen_ghost_b(&pre[0], 0, base[0]);
    fub::gen_ghost_b(&pre[1], 1, base[1]);
    nd::assume(pre[0].filled > 0 || c.cursor == 0, "U4");
    let gh = g();
    let mut id = 0;
    while id < c.caps[0] + c.caps[1] {
        gh.seq[id] = nd::below(8);
        id += 1;
    }
    let seq0 = gh.seq;
    let mut groups = std::vec::Vec::with_capacity(3);
    groups.push(fub::build_g(&pre[0], 0, base[0], mk));
    groups.push(fub::build_g(&pre[1], 1, base[1], mk));
    let mut m = MergeUnbounded::verif_from_parts(groups, c.cursor);
    gh.selfwake_left = c.selfwakes;
    gh.items_left = c.items;
    // the victim: a live source that is queued in its group
    let gv = nd::below(2) as usize;
    let sv = nd::below(c.caps[1] as u8) as usize;
    nd::assume(sv < c.caps[gv] && pre[gv].occ[sv % MAXS] && pre[gv].queued(sv), "victim");
    let idv = base[gv] + sv;
    let pos0 = qpos(&pre[gv], sv);
    let dist0 = (gv + n - (c.cursor % n)) % n;
    let t = nd::below(2) as usize;
    let w = gh::task_waker(t);
    let wakes0 = gh.task_wakes;
    let mut cx = Context::from_waker(&w);

    let a0 = gh::allocs();
    gh::alloc_track(true);
    let r = Pin::new(&mut m).poll_next(&mut cx);
    gh::alloc_track(false);
    vassert!(gh::allocs() == a0, "C18:MergeUnbounded allocated during poll_next");

    let woken_t = gh.task_wakes[t] > wakes0[t];
    let n2 = m.verif_n_groups();
    let cursor2 = m.verif_poll_next();
    vassert!(n2 >= 1 && n2 <= 2 && cursor2 <= n2, "C13:group cursor out of range");
    // locate the victim's group afterwards (capacities are distinct)
    let mut gv2 = 9;
    let mut j = 0;
    while j < 2 {
        if j < n2 && m.verif_group(j).capacity() == c.caps[gv] {
            gv2 = j;
        }
        j += 1;
    }
    match r {
        Poll::Ready(Some(x)) => {
            let src = (x >> 4) as usize;
            vassert!(src < c.caps[0] + c.caps[1] && (x & 15) == seq0[src] & 15 && gh.seq[src] == seq0[src].wrapping_add(1), "C11:item yielded out of its source's order (or an item was lost)");
            vcover!(src != idv, "cover:item_from_other");
        }
        Poll::Ready(None) => {
            let mut k = 0;
            while k < 2 {
                let mut i = 0;
                while i < c.caps[k] {
                    if pre[k].occ[i] {
                        vassert!(gh.done[base[k] + i], "C11:None although a source is still live");
                    }
                    i += 1;
                }
                k += 1;
            }
        }
        Poll::Pending => {
            vassert!(woken_t || gh.polls_in_call[idv] > 0 || gh.done[idv], "C01:Pending although a queued source was not polled and the task not woken");
            // Pending only while some source is still live
            let mut live = false;
            let mut k = 0;
            while k < 2 {
                let mut i = 0;
                while i < c.caps[k] {
                    if pre[k].occ[i] && !gh.done[base[k] + i] {
                        live = true;
                    }
                    i += 1;
                }
                k += 1;
            }
            vassert!(live, "C11:Pending although every source has ended");
            // C14: no source waker was invoked during the call (sources that yield are
            // re-armed through the queue, not through their waker): the merge must not
            // wake its own task
            if gh.child_wakes == 0 {
                vassert!(!woken_t && gh.task_wakes[1 - t] == wakes0[1 - t], "C14:task woken although no child waker was invoked");
            }
            // Pending only while the live sources are pending: a live source that
            // was queued (has something to say) must have been polled in this call
            let mut k = 0;
            while k < 2 {
                let mut i = 0;
                while i < c.caps[k] {
                    let sid = base[k] + i;
                    if pre[k].occ[i] && pre[k].queued(i) && !gh.done[sid] {
                        vassert!(
                            gh.polls_in_call[sid] > 0 && (gh.last_answer[sid] == 1 || gh.last_answer[sid] == 2),
                            "C11:Pending although a live source that was ready to be polled was not polled (or did not answer Pending)"
                        );
                    }
                    i += 1;
                }
                k += 1;
            }
            vcover!(true, "cover:pending");
        }
    }
    let mut id = 0;
    while id < c.caps[0] + c.caps[1] {
        if !matches!(r, Poll::Ready(Some(x)) if (x >> 4) as usize == id) {
            vassert!(gh.seq[id] == seq0[id], "C11:an item was pulled and dropped");
        }
        id += 1;
    }
    // ---- C08: live sources did not move (group removal / rotation moves handles only)
    {
        let mut j = 0;
        while j < 2 {
            if j < n2 {
                let capj = m.verif_group(j).capacity();
                let mut i = 0;
                while i < c.caps[1] {
                    if i < capj {
                        if let Some(ch) = v::fub_peek(m.verif_group(j), i) {
                            let cid = ch.id as usize % gh::NCH;
                            vassert!(gh.addr[cid] == 0 || gh.addr[cid] == ch as *const Src as usize, "C08:held source moved");
                        }
                    }
                    i += 1;
                }
            }
            j += 1;
        }
    }
    // ---- C13 ranking
    if gh.polls_in_call[idv] == 0 {
        vassert!(gv2 < 2, "C11:group of a live source discarded");
        let g2 = m.verif_group(gv2 % 2);
        let s = fub::snap(g2, c.caps[gv], t);
        let pos2 = s.qpos(sv).unwrap_or(99);
        let dist2 = (gv2 + n2 - (cursor2 % n2)) % n2;
        vassert!(pos2 != 99, "C01:a queued source lost its place in the ready queue");
        // rank = (entries ahead of the victim in its group's FIFO) * #groups +
        // (cursor distance to its group): a visit of its group consumes at
        // least one entry ahead of it; a call that serves another group must
        // move the cursor on. Strictly decreasing => polled within
        // (position + 1) * #groups calls.
        vassert!(
            pos2 * n + dist2 < pos0 * n + dist0,
            "C13:a woken source in another group got no nearer to its turn (starvation)"
        );
        vcover!(true, "cover:victim_not_polled");
    }
    core::mem::forget(m);
}

fn qpos(p: &Pre, slot: usize) -> usize {
    let mut r = 99;
    let mut k = 0;
    while k < p.cap {
        if k < p.qlen && p.q[k].slot == slot && r == 99 {
            r = k;
        }
        k += 1;
    }
    r
}


/// Step(push) on `MergeUnbounded`: the last group takes the stream, or a group of
/// twice its capacity is appended; nothing else moves; no stream is polled
pub fn step_push_unbounded(c: &MUCfg) {
    gh::reset();
    let p0 = fub::gen_pre(c.caps[0], false);
    let p1 = fub::gen_pre(c.caps[1], false);
    let base = [0usize, c.caps[0]];
    fub::gen_ghost_b(&p0, 0, base[0]);
    fub::gen_ghost_b(&p1, 1, base[1]);
    nd::assume(p0.filled > 0 || c.cursor == 0, "U4");
    let gh = g();
    let mut groups = std::vec::Vec::with_capacity(3);
    groups.push(fub::build_g(&p0, 0, base[0], mk));
    groups.push(fub::build_g(&p1, 1, base[1], mk));
    let mut m = MergeUnbounded::verif_from_parts(groups, c.cursor);
    let id = (c.caps[0] + c.caps[1]) as u8;
    let len0 = m.len();
    let a0 = gh::allocs();
    gh::alloc_track(true);
    m.push(Src { id });
    gh::alloc_track(false);
    let da = gh::allocs() - a0;
    let full = p1.filled == c.caps[1];
    vassert!(m.len() == len0 + 1 && !m.is_empty(), "C11:pushed source not held");
    vassert!(gh.drops[id as usize % gh::NCH] == 0 && gh.total_child_polls == 0, "C12:push polled or dropped a source");
    vassert!(m.verif_poll_next() == c.cursor, "C13:push moved the group cursor");
    let n2 = m.verif_n_groups();
    if full {
        vassert!(n2 == 3, "C18:no group appended although the last group is full");
        vassert!(m.verif_group(2).capacity() >= 2 * c.caps[1] && m.verif_group(2).len() == 1, "C18:new group does not (at least) double the capacity (or does not hold the pushed source)");
        nd::assume(m.verif_group(2).capacity() == 2 * c.caps[1], "doubling policy");
        vassert!(da <= 3, "C18:more than three allocations for a new group");
        let s = fub::snap(m.verif_group(2), 2 * c.caps[1], 0);
        vassert!(s.qlen == 1, "C01:pushed source not marked ready");
        vcover!(true, "cover:push_new_group");
    } else {
        vassert!(n2 == 2, "C18:group appended although the last group has room");
        vassert!(da == 0, "C18:MergeUnbounded allocated for a push although the last group has room");
        let s = fub::snap(m.verif_group(1), c.caps[1], 0);
        vassert!(s.filled == p1.filled + 1 && s.queued(p1.free_head), "C01:pushed source not held and marked ready in the last group");
        vcover!(true, "cover:push_last_group");
    }
    let s0 = fub::snap(m.verif_group(0), c.caps[0], 0);
    vassert!(s0.filled == p0.filled && s0.qlen == p0.qlen, "C11:push disturbed another group");
    // C08: sources of the first group did not move
    let mut i = 0;
    while i < c.caps[0] {
        if let Some(ch) = v::fub_peek(m.verif_group(0), i) {
            let cid = ch.id as usize;
            vassert!(gh.addr[cid % gh::NCH] == 0 || gh.addr[cid % gh::NCH] == ch as *const Src as usize, "C08:held source moved");
        }
        i += 1;
    }
    core::mem::forget(m);
}

// ------------------------------------------------------------ many sources ending at once

static mut E_POLLS: [u8; 8] = [0; 8];
static mut E_DROPS: [u8; 8] = [0; 8];
static mut E_ENDS: u8 = 0;

/// a source that answers None (bit set in E_ENDS) or Pending on its one poll
pub struct EndSrc {
    id: u8,
}
impl Stream for EndSrc {
    type Item = u8;
    fn poll_next(self: Pin<&mut Self>, _cx: &mut Context<'_>) -> Poll<Option<u8>> {
        unsafe {
            E_POLLS[self.id as usize] += 1;
            if (E_ENDS >> self.id) & 1 == 1 {
                Poll::Ready(None)
            } else {
                Poll::Pending
            }
        }
    }
}
impl Drop for EndSrc {
    fn drop(&mut self) {
        unsafe { E_DROPS[self.id as usize] += 1 }
    }
}

/// `N` queued sources of which an arbitrary subset ends in ONE poll of the
/// bounded merge (the two-slot step harness cannot see a defect that needs
/// several ends in one call): every source is polled exactly once, every ended
/// source is dropped by this call, None iff all ended, else Pending.
pub fn end_many() {
    const N: usize = 6;
    gh::reset();
    #[cfg(futures_buffered_verif_model)]
    v::model_waker::set_big_queue(true);
    unsafe {
        E_POLLS = [0; 8];
        E_DROPS = [0; 8];
        E_ENDS = nd::below(1 << N);
    }
    let gh = g();
    let t = nd::below(2) as usize;
    let w = gh::task_waker(t);
    let mut q = [v::QEntry { slot: 0, inflight: false }; N];
    let mut k = 0;
    while k < N {
        q[k].slot = k;
        k += 1;
    }
    let inner: futures_buffered::FuturesUnorderedBounded<EndSrc> = v::fub_from_parts(N, |i| Ok(EndSrc { id: i as u8 }), N, N, &q, &w, false);
    let mut m = MergeBounded::verif_from_parts(inner);
    gh.task_wakes = [0; 2];
    let mut cx = Context::from_waker(&w);
    let r = Pin::new(&mut m).poll_next(&mut cx);
    let ends = unsafe { E_ENDS };
    let mut i = 0;
    let mut live = 0;
    while i < N {
        let ended = (ends >> i) & 1 == 1;
        let (polls, drops) = unsafe { (E_POLLS[i], E_DROPS[i]) };
        vassert!(polls >= 1, "C11:a queued source was not polled and the call did not yield");
        vassert!(polls <= 1, "C12:source polled twice for one notification");
        if ended {
            vassert!(polls <= 1, "C05:source polled again after it answered None");
            vassert!(drops == 1, "C05:ended source not dropped by the call that observed its end");
            vassert!(drops == 1, "C06:ended source removed from the merge without being dropped exactly once (leak or double drop)");
        } else {
            vassert!(drops == 0, "C06:live source dropped");
            live += 1;
        }
        i += 1;
    }
    vassert!(m.verif_inner().len() == live, "C11:a source is held after it ended, or was removed although it did not end");
    match r {
        Poll::Ready(Some(_)) => vassert!(false, "C11:yielded an item no held source produced"),
        Poll::Ready(None) => vassert!(live == 0, "C11:None although a source is still live"),
        Poll::Pending => {
            vassert!(live > 0, "C11:Pending although every source has ended");
            vassert!(gh.task_wakes[0] == 0 && gh.task_wakes[1] == 0, "C14:task woken although no child waker was invoked");
        }
    }
    vcover!(live == 0, "cover:all_ended");
    vcover!(live == 1, "cover:one_left");
    core::mem::forget(m);
}

// ------------------------------------------------------------ three groups: removal keeps the order

/// `MergeUnbounded<EndSrc>` with three groups (capacities 1, 2, 4) holding one
/// source each; every source is queued or asleep, and answers None or Pending
/// (concrete per harness), so a given subset of the groups runs empty in this
/// ONE poll; the polling task and the registration state are symbolic. Afterwards the remaining groups are still in increasing capacity
/// order (U1: the largest allocation is the last group - the one `push` fills
/// and `poll_next` retains), exactly the groups that ran empty (other than
/// the last) are gone, nothing else was touched.
pub fn rot_unbounded(cursor: usize, queued_mask: u8, ends_mask: u8) {
    gh::reset();
    let caps = [1usize, 2, 4];
    unsafe {
        E_POLLS = [0; 8];
        E_DROPS = [0; 8];
        // concrete per harness: a symbolic choice of which groups run empty makes
        // every later group access go through a symbolic pointer (> 20 GB)
        E_ENDS = ends_mask;
    }
    let queued = queued_mask;
    let gh = g();
    let t = nd::below(2) as usize;
    let w = gh::task_waker(t);
    let q = [v::QEntry { slot: 0, inflight: false }; MAXS];
    let mut groups = std::vec::Vec::with_capacity(4);
    let mut k = 0;
    while k < 3 {
        let ql = ((queued >> k) & 1) as usize;
        let id = k as u8;
        groups.push(v::fub_from_parts(caps[k], |i| if i == 0 { Ok(EndSrc { id }) } else { Err(i + 1) }, 1, ql, &q, &w, false));
        k += 1;
    }
    let mut m = MergeUnbounded::verif_from_parts(groups, cursor);
    gh.task_wakes = [0; 2];
    let mut cx = Context::from_waker(&w);
    let a0 = gh::allocs();
    gh::alloc_track(true);
    let r = Pin::new(&mut m).poll_next(&mut cx);
    gh::alloc_track(false);
    vassert!(gh::allocs() == a0, "C18:MergeUnbounded allocated during poll_next");
    let ends = unsafe { E_ENDS };
    let n2 = m.verif_n_groups();
    vassert!(n2 >= 1 && n2 <= 3 && m.verif_poll_next() <= n2, "C13:group cursor out of range");
    let mut present = [false; 3];
    let mut j = 0;
    while j < 3 {
        if j < n2 {
            let cj = m.verif_group(j).capacity();
            if j + 1 < n2 {
                let cn = m.verif_group(j + 1).capacity();
                vassert!(cj < cn, "C18:groups no longer in increasing capacity order: the largest allocation is not the last group, pushes allocate anew although it has room");
            }
            let mut k = 0;
            while k < 3 {
                if cj == caps[k] {
                    present[k] = true;
                }
                k += 1;
            }
        }
        j += 1;
    }
    let mut live = 0;
    let mut k = 0;
    while k < 3 {
        let was_queued = (queued >> k) & 1 == 1;
        let ended = was_queued && (ends >> k) & 1 == 1;
        let (polls, drops) = unsafe { (E_POLLS[k], E_DROPS[k]) };
        vassert!(polls == was_queued as u8, "C12:a source was polled without having been notified, or a notified source was not polled");
        if ended {
            vassert!(drops == 1, "C05:ended source not dropped by the call that observed its end");
            vassert!(!present[k] || k == 2, "C11:a group that ran empty is still held");
        } else {
            live += 1;
            vassert!(drops == 0, "C06:live source dropped");
            vassert!(present[k], "C11:group of a live source discarded");
        }
        k += 1;
    }
    vassert!(present[2], "C18:the largest group was discarded");
    match r {
        Poll::Ready(Some(_)) => vassert!(false, "C11:yielded an item no held source produced"),
        Poll::Ready(None) => vassert!(live == 0, "C11:None although a source is still live"),
        Poll::Pending => vassert!(live > 0, "C11:Pending although every source has ended"),
    }
    vcover!(n2 == 1, "cover:two_groups_removed");
    vcover!(n2 == 2, "cover:one_group_removed");
    core::mem::forget(m);
}

/// Step(try_push) on the bounded merge: a source added while the merge is being
/// consumed is held and marked ready (so the next poll asks it), or - when the
/// merge is full - handed back untouched; no source is polled, moved or dropped.
pub fn step_push(c: &MCfg) {
    gh::reset();
    let p = fub::gen_pre(c.cap, false);
    fub::gen_ghost(&p, 0);
    let gh = g();
    let inner = fub::build_g(&p, 0, 0, mk);
    let mut m = MergeBounded::verif_from_parts(inner);
    let id = c.cap as u8;
    let wakes0 = gh.task_wakes;
    let a0 = gh::allocs();
    gh::alloc_track(true);
    let r = m.try_push(Src { id });
    gh::alloc_track(false);
    vassert!(gh::allocs() == a0, "C18:MergeBounded allocated during a push");
    let s = fub::snap(m.verif_inner(), c.cap, p.last_t);
    let occ = fub::snap_occ_pub(&s);
    match r {
        Ok(()) => {
            let slot = p.free_head;
            vassert!(p.filled < c.cap && s.filled == p.filled + 1, "C11:pushed source not held");
            vassert!(slot < c.cap && occ[slot % MAXS], "C11:pushed source not held");
            match v::fub_peek(m.verif_inner(), slot % MAXS) {
                Some(ch) => vassert!(ch.id == id, "C11:slot holds another source than the one pushed"),
                None => vassert!(false, "C11:pushed source not held"),
            }
            vassert!(s.queued(slot), "C01:pushed source not marked ready");
            vassert!(s.qlen == p.qlen + if p.queued(slot) { 0 } else { 1 }, "C12:push changed the ready queue by more than its own entry");
            vcover!(true, "cover:push_ok");
        }
        Err(back) => {
            vassert!(p.filled == c.cap, "C11:push refused although there is room");
            vassert!(back.id == id && gh.drops[id as usize] == 0, "C11:refused try_push did not return the same source");
            vassert!(s.filled == p.filled && s.qlen == p.qlen, "C11:refused push disturbed the merge");
            core::mem::forget(back);
            vcover!(true, "cover:push_refused");
        }
    }
    let mut i = 0;
    while i < c.cap {
        if p.occ[i] {
            vassert!(occ[i] && gh.drops[i] == 0, "C11:push removed or dropped another source");
            if let Some(ch) = v::fub_peek(m.verif_inner(), i) {
                vassert!(gh.addr[i] == 0 || gh.addr[i] == ch as *const Src as usize, "C08:held source moved");
            }
        }
        i += 1;
    }
    vassert!(gh.total_child_polls == 0, "C12:push polled a source");
    vassert!(gh.task_wakes[0] == wakes0[0] && gh.task_wakes[1] == wakes0[1], "C14:push invoked a task waker");
    fub::check_inv_post(&s, 0, fub::M_INV);
    core::mem::forget(m);
}
