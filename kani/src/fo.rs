//! Step scenarios on the unbounded `FuturesOrdered<Fut>` (ordered queue over
//! `FuturesUnordered`): same ghost as fob.rs, one inner group.
#![allow(static_mut_refs)]

use crate::child::Fut;
use crate::fob::{self, OCfg, PARK};
use crate::gh::{self, g};
use crate::nd;
use crate::{vassert, vcover};
use core::pin::Pin;
use core::task::{Context, Poll};
use futures_buffered::verif as v;
use futures_buffered::FuturesOrdered;
use futures_core::Stream;

/// Observers and Step(push_back / push_front) - no poll - from an arbitrary
/// INV_ordered pre-state (one inner group, parked outputs)
pub fn step_observe_push(c: &OCfg) {
    let (mut f, o) = build_pre(c);
    let gh = g();
    vassert!(f.len() == o.len && f.is_empty() == (o.len == 0), "C15:len/is_empty differ from the number of held elements");
    vassert!(f.size_hint() == (o.len, Some(o.len)), "C17:size_hint differs from the number of elements still to be yielded");
    vassert!(futures_core::FusedStream::is_terminated(&f) == (o.len == 0), "C15:is_terminated differs from emptiness");
    let (inc0, out0) = f.verif_counters();
    let id = c.cap;
    let front = nd::flag();
    if front {
        f.push_front(Fut::new(id as u8));
    } else {
        f.push_back(Fut::new(id as u8));
    }
    let (inc1, out1) = f.verif_counters();
    if front {
        vassert!(out1 == out0.wrapping_sub(1) && inc1 == inc0, "C04:push_front did not place the future ahead of everything held");
    } else {
        vassert!(inc1 == inc0.wrapping_add(1) && out1 == out0, "C04:push_back did not place the future behind everything held");
    }
    vassert!(f.len() == o.len + 1, "C15:len not incremented by a push");
    vassert!(f.size_hint() == (o.len + 1, Some(o.len + 1)), "C17:size_hint differs from the number of elements still to be yielded");
    vassert!(gh.drops[id] == 0 && gh.total_child_polls == 0, "C12:push polled or dropped a child");
    vcover!(front, "cover:push_front");
    vcover!(!front, "cover:push_back");
    core::mem::forget(f);
}

fn build_pre(c: &OCfg) -> (FuturesOrdered<Fut>, fob::OPre) {
    build_pre_out(c, None)
}

/// `out`: a concrete value of next_outgoing_index instead of an arbitrary one
fn build_pre_out(c: &OCfg, out: Option<usize>) -> (FuturesOrdered<Fut>, fob::OPre) {
    gh::reset();
    let mut o = if out.is_some() { fob::gen_opre_narrow(c) } else { fob::gen_opre(c) };
    if let Some(x) = out {
        o.out = x;
    }
    let gh = g();
    let p = o.p;
    let mut i = 0;
    while i < c.cap {
        if p.occ[i] {
            gh.slot_of[i] = i as u8;
            gh.group_of[i] = 0;
        }
        i += 1;
    }
    let w0 = gh::task_waker(p.reg_t);
    let q = p.q;
    let mut f: FuturesOrdered<Fut> = v::fo_from_parts_1(
        c.cap,
        |i| if p.occ[i] { Ok((Fut::new(i as u8), o.out.wrapping_add(o.off[i]))) } else { Err(p.nf[i]) },
        p.free_head,
        p.qlen,
        &q,
        &w0,
        p.reg,
        o.out.wrapping_add(o.len),
        o.out,
    );
    gh.task_wakes = [0; 2];
    let mut k = 0;
    while k < c.max_parked {
        f.verif_park(o.out.wrapping_add(o.poff[k]), PARK + o.poff[k] as u8);
        k += 1;
    }
    (f, o)
}

/// Step(poll_next) from an arbitrary INV_ordered pre-state (one inner group)
pub fn step_poll(c: &OCfg) {
    step_poll_out(c, None)
}

/// as `step_poll`; with `Some(out)` the position counter is concrete (the
/// re-basing block is then either skipped or taken, concretely)
pub fn step_poll_out(c: &OCfg, out: Option<usize>) {
    let (mut f, o) = build_pre_out(c, out);
    let gh = g();
    let p = o.p;
    gh.selfwake_left = c.selfwakes;
    vassert!(f.len() == o.len && f.is_empty() == (o.len == 0), "C15:len/is_empty differ from the number of held elements");
    vassert!(f.size_hint() == (o.len, Some(o.len)), "C17:size_hint differs from the number of elements still to be yielded");
    let t = nd::below(2) as usize;
    let w = gh::task_waker(t);
    let mut cx = Context::from_waker(&w);
    let r = Pin::new(&mut f).poll_next(&mut cx);
    let (inc, out) = f.verif_counters();
    match r {
        Poll::Ready(Some(x)) => {
            if x >= PARK {
                vassert!(x == PARK, "C04:yielded a parked output that is not at the front");
            } else {
                let id = x as usize;
                vassert!(id < c.cap && p.occ[id % gh::MAXS] && gh.done[id % gh::NCH], "C02:yielded an output no held future produced in this call");
                vassert!(o.off[id % gh::MAXS] == 0, "C04:yielded an output out of queue order");
            }
            vassert!(f.len() + 1 == o.len, "C02:an element was lost or duplicated by a yield");
            vcover!(x >= PARK, "cover:yield_parked");
            vcover!(x < PARK, "cover:yield_running");
        }
        Poll::Ready(None) => {
            vassert!(o.len == 0, "C02:Ready(None) while elements are held");
        }
        Poll::Pending => {
            vassert!(o.len > 0, "C02:Pending although nothing is held");
            vassert!(f.len() == o.len, "C02:an element was lost or duplicated by a Pending poll");
            vcover!(true, "cover:pending");
        }
    }
    // parked outputs keep their places
    let hl = f.verif_heap_len();
    let mut k = 0;
    while k < c.max_parked + c.cap {
        if k < hl {
            if let Some((pos, tok)) = f.verif_heap_at(k) {
                let tok = *tok;
                let off = pos.wrapping_sub(out);
                let shift = if matches!(r, Poll::Ready(Some(_))) { 1 } else { 0 };
                if tok >= PARK {
                    vassert!(off == ((tok - PARK) as usize).wrapping_sub(shift), "C04:a parked output changed its place in the queue");
                } else {
                    vassert!((tok as usize) < c.cap && off == o.off[tok as usize % gh::MAXS].wrapping_sub(shift), "C04:an output was parked at another place than its future's");
                }
            }
        }
        k += 1;
    }
    let l2 = f.len();
    vassert!(inc.wrapping_sub(out) == l2, "C04:position counters do not delimit the held elements");
    vassert!(f.size_hint() == (l2, Some(l2)), "C17:size_hint differs from the number of elements still to be yielded");
    vassert!(f.is_empty() == (l2 == 0), "C15:is_empty inconsistent");
    core::mem::forget(f);
}
