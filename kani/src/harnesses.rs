//! Harness table: every entry is a Kani proof harness and a native replay
//! target of the same name.
use crate::fub::{self, StepCfg};

macro_rules! harness {
    ($name:ident, $body:expr) => {
        #[cfg_attr(kani, kani::proof)]
        #[cfg_attr(all(kani, futures_buffered_verif_model), kani::stub(core::task::Waker::wake_by_ref, crate::gh::stub_wake_by_ref))]
        #[cfg_attr(all(kani, futures_buffered_verif_model), kani::stub(core::task::Waker::wake, crate::gh::stub_wake))]
        #[cfg_attr(all(kani, futures_buffered_verif_model), kani::stub(<core::task::Waker as core::clone::Clone>::clone, crate::gh::stub_clone))]
        #[cfg_attr(all(kani, futures_buffered_verif_model), kani::stub(<core::task::Waker as core::ops::Drop>::drop, crate::gh::stub_drop))]
        pub fn $name() {
            $body
        }
    };
}

// FuturesUnorderedBounded: Step(poll_next) from an arbitrary INV state
harness!(fub_poll_c2, fub::step_poll(&StepCfg {
    cap: 2,
    selfwakes: 1,
    mon: fub::M_ALL,
    env_budget: 0,
    inflight_ok: false,
    quiet: false,
    handles: false,
}));

/// name -> function, for the native replayer
pub fn table() -> &'static [(&'static str, fn())] {
    &[
        ("fub_poll_c2", fub_poll_c2),
        ("p_fail", crate::probes::p_fail),
    ]
}
