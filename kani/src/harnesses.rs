//! Harness table: every entry is a Kani proof harness and a native replay
//! target of the same name.
use crate::fu::{self, UCfg};
use crate::fub::{self, StepCfg};

macro_rules! harness {
    ($name:ident, $body:expr) => {
        #[cfg_attr(kani, kani::proof)]
        #[cfg_attr(all(kani, futures_buffered_verif_model), kani::stub(core::task::Waker::wake_by_ref, crate::gh::stub_wake_by_ref))]
        #[cfg_attr(all(kani, futures_buffered_verif_model), kani::stub(core::task::Waker::wake, crate::gh::stub_wake))]
        #[cfg_attr(all(kani, futures_buffered_verif_model), kani::stub(<core::task::Waker as core::clone::Clone>::clone, crate::gh::stub_clone))]
        #[cfg_attr(all(kani, futures_buffered_verif_model), kani::stub(<core::task::Waker as core::ops::Drop>::drop, crate::gh::stub_drop))]
        pub fn $name() {
            $body
        }
    };
}

// FuturesUnorderedBounded: Step(poll_next) from an arbitrary INV state
harness!(fub_poll_c2, fub::step_poll(&StepCfg {
    cap: 2,
    selfwakes: 1,
    mon: fub::M_ALL,
    env_budget: 0,
    inflight_ok: false,
    quiet: false,
    handles: false,
}));

harness!(fub_poll_c1, fub::step_poll(&StepCfg { cap: 1, selfwakes: 1, mon: fub::M_ALL, env_budget: 0, inflight_ok: false, quiet: false, handles: false }));
harness!(fub_poll_c3, fub::step_poll(&StepCfg { cap: 3, selfwakes: 1, mon: fub::M_ALL, env_budget: 0, inflight_ok: false, quiet: false, handles: false }));
// quiet environment (no self-wake, no racing wake): C14
harness!(fub_poll_c2_quiet, fub::step_poll(&StepCfg { cap: 2, selfwakes: 0, mon: fub::M_ALL, env_budget: 0, inflight_ok: false, quiet: true, handles: false }));
// racing wakes at the WakerList operation boundaries, stale handles, enqueues in flight: C01
harness!(fub_poll_c2_env, fub::step_poll(&StepCfg { cap: 2, selfwakes: 0, mon: fub::M_ALL, env_budget: 1, inflight_ok: true, quiet: false, handles: true }));
// per-poll budget of 61 child polls: one child that may wake itself on every poll
harness!(fub_poll_budget, fub::step_poll(&StepCfg { cap: 1, selfwakes: 62, mon: fub::M_ALL, env_budget: 0, inflight_ok: false, quiet: false, handles: false }));
harness!(fub_push_c2, fub::step_push(&StepCfg { cap: 2, selfwakes: 0, mon: fub::M_ALL, env_budget: 0, inflight_ok: false, quiet: false, handles: false }));
harness!(fub_push_c2_inflight, fub::step_push(&StepCfg { cap: 2, selfwakes: 0, mon: fub::M_ALL, env_budget: 0, inflight_ok: true, quiet: false, handles: false }));
harness!(fub_push_c0, fub::step_push(&StepCfg { cap: 0, selfwakes: 0, mon: fub::M_ALL, env_budget: 0, inflight_ok: false, quiet: false, handles: false }));
harness!(fub_wake_c2, fub::step_wake(&StepCfg { cap: 2, selfwakes: 0, mon: fub::M_ALL, env_budget: 0, inflight_ok: false, quiet: false, handles: false }));
harness!(fub_wake_c2_inflight, fub::step_wake(&StepCfg { cap: 2, selfwakes: 0, mon: fub::M_ALL, env_budget: 0, inflight_ok: true, quiet: false, handles: false }));
harness!(fub_poll_c2_inflight, fub::step_poll(&StepCfg { cap: 2, selfwakes: 0, mon: fub::M_ALL, env_budget: 0, inflight_ok: true, quiet: false, handles: false }));
harness!(fub_poll_c2_handles, fub::step_poll(&StepCfg { cap: 2, selfwakes: 0, mon: fub::M_ALL, env_budget: 1, inflight_ok: false, quiet: false, handles: true }));
harness!(fub_drop_c2, fub::step_drop(&StepCfg { cap: 2, selfwakes: 0, mon: fub::M_ALL, env_budget: 0, inflight_ok: false, quiet: false, handles: true }));

// FuturesUnordered (groups of capacities 1,2 stand in for 32,64)
harness!(fu_poll_12, fu::step_poll(&UCfg { caps: [1, 2, 0], n: 2, selfwakes: 1, quiet: false, cursor: 0 }));
harness!(fu_poll_12_quiet, fu::step_poll(&UCfg { caps: [1, 2, 0], n: 2, selfwakes: 0, quiet: true, cursor: 0 }));
harness!(fu_poll_12_c1, fu::step_poll(&UCfg { caps: [1, 2, 0], n: 2, selfwakes: 1, quiet: false, cursor: 1 }));
harness!(fu_poll_12_c2, fu::step_poll(&UCfg { caps: [1, 2, 0], n: 2, selfwakes: 1, quiet: false, cursor: 2 }));
harness!(fu_poll_2, fu::step_poll(&UCfg { caps: [2, 0, 0], n: 1, selfwakes: 1, quiet: false, cursor: 0 }));
harness!(fu_push_12, fu::step_push(&UCfg { caps: [1, 2, 0], n: 2, selfwakes: 0, quiet: true, cursor: 0 }));
harness!(fu_push_2, fu::step_push(&UCfg { caps: [2, 0, 0], n: 1, selfwakes: 0, quiet: true, cursor: 0 }));

harness!(x_h1e0, fub::step_poll(&StepCfg { cap: 2, selfwakes: 0, mon: fub::M_ALL, env_budget: 0, inflight_ok: false, quiet: false, handles: true }));
harness!(x_h0e1, fub::step_poll(&StepCfg { cap: 2, selfwakes: 0, mon: fub::M_ALL, env_budget: 1, inflight_ok: false, quiet: false, handles: false }));

/// name -> function, for the native replayer
pub fn table() -> &'static [(&'static str, fn())] {
    &[
        ("fub_poll_c2", fub_poll_c2),
        ("fub_poll_c1", fub_poll_c1),
        ("fub_poll_c3", fub_poll_c3),
        ("fub_poll_c2_quiet", fub_poll_c2_quiet),
        ("fub_poll_c2_env", fub_poll_c2_env),
        ("fub_poll_budget", fub_poll_budget),
        ("fub_push_c2", fub_push_c2),
        ("fub_push_c0", fub_push_c0),
        ("fub_wake_c2", fub_wake_c2),
        ("fub_drop_c2", fub_drop_c2),
        ("fu_poll_12", fu_poll_12),
        ("fu_poll_12_quiet", fu_poll_12_quiet),
        ("fu_poll_2", fu_poll_2),
        ("fu_poll_12_c1", fu_poll_12_c1),
        ("fu_poll_12_c2", fu_poll_12_c2),
        ("fu_push_12", fu_push_12),
        ("fu_push_2", fu_push_2),
        ("fub_push_c2_inflight", fub_push_c2_inflight),
        ("fub_wake_c2_inflight", fub_wake_c2_inflight),
        ("fub_poll_c2_inflight", fub_poll_c2_inflight),
        ("fub_poll_c2_handles", fub_poll_c2_handles),
    ]
}
