//! Harness table: every entry is a Kani proof harness and a native replay
//! target of the same name.
use crate::ad::{self, ACfg};
use crate::fob::{self, OCfg};
use crate::fu::{self, UCfg};
use crate::ja::{self, JCfg};
use crate::mg::{self, MCfg, MUCfg};
use crate::fub::{self, StepCfg};

macro_rules! harness {
    ($name:ident, $body:expr) => {
        #[cfg_attr(kani, kani::proof)]
        #[cfg_attr(kani, kani::stub(core::task::Waker::wake_by_ref, crate::gh::stub_wake_by_ref))]
        #[cfg_attr(kani, kani::stub(core::task::Waker::wake, crate::gh::stub_wake))]
        #[cfg_attr(kani, kani::stub(<core::task::Waker as core::clone::Clone>::clone, crate::gh::stub_clone))]
        #[cfg_attr(kani, kani::stub(<core::task::Waker as core::ops::Drop>::drop, crate::gh::stub_drop))]
        #[cfg_attr(kani, kani::stub(alloc::alloc::alloc, crate::gh::alloc_stubs::alloc))]
        #[cfg_attr(kani, kani::stub(alloc::alloc::realloc_nonnull, crate::gh::alloc_stubs::realloc_nonnull))]
        pub fn $name() {
            $body
        }
    };
}

// FuturesUnorderedBounded: Step(poll_next) from an arbitrary INV state
harness!(fub_poll_c2, fub::step_poll(&StepCfg {
    cap: 2,
    selfwakes: 1,
    mon: fub::M_ALL,
    env_budget: 0,
    inflight_ok: false,
    quiet: false,
    handles: false,
}));

harness!(fub_poll_c1, fub::step_poll(&StepCfg { cap: 1, selfwakes: 1, mon: fub::M_ALL, env_budget: 0, inflight_ok: false, quiet: false, handles: false }));
harness!(fub_poll_c3, fub::step_poll(&StepCfg { cap: 3, selfwakes: 1, mon: fub::M_ALL, env_budget: 0, inflight_ok: false, quiet: false, handles: false }));
// quiet environment (no self-wake, no racing wake): C14
harness!(fub_poll_c2_quiet, fub::step_poll(&StepCfg { cap: 2, selfwakes: 0, mon: fub::M_ALL, env_budget: 0, inflight_ok: false, quiet: true, handles: false }));
// racing wakes at the WakerList operation boundaries, stale handles, enqueues in flight: C01
harness!(fub_poll_c2_env, fub::step_poll(&StepCfg { cap: 2, selfwakes: 0, mon: fub::M_ALL, env_budget: 1, inflight_ok: true, quiet: false, handles: true }));
// per-poll budget of 61 child polls: one child that may wake itself on every poll
harness!(fub_poll_budget, fub::budget(100));
harness!(fub_poll_budget_61, fub::budget(61));
harness!(fub_poll_budget_3, fub::budget(3));
harness!(fub_poll_budget_many, fub::budget_many());
harness!(fub_push_c2, fub::step_push(&StepCfg { cap: 2, selfwakes: 0, mon: fub::M_ALL, env_budget: 0, inflight_ok: false, quiet: false, handles: false }));
harness!(fub_push_c3, fub::step_push(&StepCfg { cap: 3, selfwakes: 0, mon: fub::M_ALL, env_budget: 0, inflight_ok: false, quiet: false, handles: false }));
harness!(fub_wake_c3, fub::step_wake(&StepCfg { cap: 3, selfwakes: 0, mon: fub::M_ALL, env_budget: 0, inflight_ok: false, quiet: false, handles: false }));
harness!(fub_push_c2_inflight, fub::step_push(&StepCfg { cap: 2, selfwakes: 0, mon: fub::M_ALL, env_budget: 0, inflight_ok: true, quiet: false, handles: false }));
harness!(fub_push_c0, fub::step_push(&StepCfg { cap: 0, selfwakes: 0, mon: fub::M_ALL, env_budget: 0, inflight_ok: false, quiet: false, handles: false }));
harness!(fub_wake_c2, fub::step_wake(&StepCfg { cap: 2, selfwakes: 0, mon: fub::M_ALL, env_budget: 0, inflight_ok: false, quiet: false, handles: false }));
harness!(fub_wake_c2_inflight, fub::step_wake(&StepCfg { cap: 2, selfwakes: 0, mon: fub::M_ALL, env_budget: 0, inflight_ok: true, quiet: false, handles: false }));
harness!(fub_poll_c2_inflight, fub::step_poll(&StepCfg { cap: 2, selfwakes: 0, mon: fub::M_ALL, env_budget: 0, inflight_ok: true, quiet: false, handles: false }));
harness!(fub_poll_c2_handles, fub::step_poll(&StepCfg { cap: 2, selfwakes: 0, mon: fub::M_ALL, env_budget: 1, inflight_ok: false, quiet: false, handles: true }));
harness!(fub_drop_c2, fub::step_drop(&StepCfg { cap: 2, selfwakes: 0, mon: fub::M_ALL, env_budget: 0, inflight_ok: false, quiet: false, handles: true }));

// history witness: INV holds along real histories from a fresh collection
harness!(reach_fub_c2_s3, crate::reach::bounded(2, 3));

// constructors through the public API
harness!(ctor_fub_from_iter, crate::ctor::fub_from_iter());
harness!(ctor_fob_from_iter, crate::ctor::fob_from_iter());
harness!(ctor_fu_0, crate::ctor::fu_ctor(0));
harness!(ctor_fu_2, crate::ctor::fu_ctor(2));
harness!(ctor_mb_from_iter, crate::ctor::mb_from_iter());

// Layer S: the slot map by itself
harness!(sm_step_c3, crate::sm::step(3));
harness!(sm_step_c4, crate::sm::step(4));

// FuturesUnordered (groups of capacities 1,2 stand in for 32,64)
harness!(fu_poll_12, fu::step_poll(&UCfg { caps: [1, 2, 0], n: 2, selfwakes: 1, quiet: false, cursor: 0, qmax: [4, 4, 4] }));
harness!(fu_poll_12_quiet, fu::step_poll(&UCfg { caps: [1, 2, 0], n: 2, selfwakes: 0, quiet: true, cursor: 0, qmax: [4, 4, 4] }));
harness!(fu_poll_12_c1, fu::step_poll(&UCfg { caps: [1, 2, 0], n: 2, selfwakes: 1, quiet: false, cursor: 1, qmax: [4, 4, 4] }));
harness!(fu_poll_12_c2, fu::step_poll(&UCfg { caps: [1, 2, 0], n: 2, selfwakes: 1, quiet: false, cursor: 2, qmax: [4, 4, 4] }));
// cheaper cursor / group-list logic harnesses: only some groups have queued children
harness!(fu_cur_12_c1, fu::step_poll(&UCfg { caps: [1, 2, 0], n: 2, selfwakes: 0, quiet: false, cursor: 1, qmax: [1, 1, 0] }));
harness!(fu_cur_12_c0, fu::step_poll(&UCfg { caps: [1, 2, 0], n: 2, selfwakes: 0, quiet: false, cursor: 0, qmax: [1, 1, 0] }));
harness!(fu_cur_124_c0, fu::step_poll(&UCfg { caps: [1, 2, 4], n: 3, selfwakes: 0, quiet: false, cursor: 0, qmax: [1, 0, 0] }));
harness!(fu_cur_124_c2, fu::step_poll(&UCfg { caps: [1, 2, 4], n: 3, selfwakes: 0, quiet: false, cursor: 2, qmax: [0, 0, 1] }));
// three groups, concrete inner states: group-list discipline (largest stays last) when a small group drains
harness!(fu_rot_124_c0, fu::step_poll(&UCfg { caps: [1, 2, 4], n: 3, selfwakes: 0, quiet: true, cursor: 0, qmax: [8, 9, 9] }));
harness!(fu_rot_124_c1, fu::step_poll(&UCfg { caps: [1, 2, 4], n: 3, selfwakes: 0, quiet: true, cursor: 1, qmax: [9, 8, 9] }));
harness!(fu_poll_2, fu::step_poll(&UCfg { caps: [2, 0, 0], n: 1, selfwakes: 1, quiet: false, cursor: 0, qmax: [4, 4, 4] }));
harness!(fu_push_12, fu::step_push(&UCfg { caps: [1, 2, 0], n: 2, selfwakes: 0, quiet: true, cursor: 0, qmax: [4, 4, 4] }));
harness!(fu_push_2, fu::step_push(&UCfg { caps: [2, 0, 0], n: 1, selfwakes: 0, quiet: true, cursor: 0, qmax: [4, 4, 4] }));

// FuturesOrderedBounded: symbolic 64-bit position counter (wrap + re-basing for every value)
harness!(fob_poll_c2, fob::step_poll(&OCfg { cap: 2, max_parked: 1, selfwakes: 0 }));
harness!(fob_poll_c2_p0, fob::step_poll(&OCfg { cap: 2, max_parked: 0, selfwakes: 0 }));
harness!(fob_poll_c3, fob::step_poll(&OCfg { cap: 3, max_parked: 1, selfwakes: 0 }));
harness!(fob_poll_drop_c1, fob::step_poll_drop(&OCfg { cap: 1, max_parked: 1, selfwakes: 0 }));
harness!(fob_poll_drop_c1_hi, fob::step_poll_drop_out(&OCfg { cap: 1, max_parked: 1, selfwakes: 0 }, Some(usize::MAX)));
harness!(fob_poll_drop_c2, fob::step_poll_drop(&OCfg { cap: 2, max_parked: 1, selfwakes: 0 }));
harness!(fob_poll_c1_p2, fob::step_poll(&OCfg { cap: 1, max_parked: 2, selfwakes: 0 }));
harness!(fob_poll_c2_p2, fob::step_poll(&OCfg { cap: 2, max_parked: 2, selfwakes: 1 }));
harness!(fob_push_c2, fob::step_push(&OCfg { cap: 2, max_parked: 1, selfwakes: 0 }));
harness!(fob_drop_c2, fob::step_drop(&OCfg { cap: 2, max_parked: 1, selfwakes: 0 }));
harness!(fob_new, fob::construct(2));
harness!(fo_new, fob::construct_unbounded(2));
harness!(fo_poll_c2, crate::fo::step_poll(&OCfg { cap: 2, max_parked: 1, selfwakes: 0 }));
harness!(fo_poll_c1, crate::fo::step_poll(&OCfg { cap: 1, max_parked: 1, selfwakes: 0 }));
harness!(fo_poll_c1_p0, crate::fo::step_poll(&OCfg { cap: 1, max_parked: 0, selfwakes: 0 }));
harness!(fo_poll_c2_lo, crate::fo::step_poll_out(&OCfg { cap: 2, max_parked: 1, selfwakes: 0 }, Some(usize::MAX >> 1)));
harness!(fo_poll_c2_hi, crate::fo::step_poll_out(&OCfg { cap: 2, max_parked: 1, selfwakes: 0 }, Some(usize::MAX)));
harness!(fo_observe_c2, crate::fo::step_observe_push(&OCfg { cap: 2, max_parked: 1, selfwakes: 0 }));
// merges
harness!(mb_poll_c2, mg::step_poll(&MCfg { cap: 2, selfwakes: 1, items: 1, quiet: false }));
harness!(mb_poll_c3, mg::step_poll(&MCfg { cap: 3, selfwakes: 0, items: 1, quiet: false }));
harness!(mb_poll_c2_quiet, mg::step_poll(&MCfg { cap: 2, selfwakes: 0, items: 1, quiet: true }));
harness!(mu_poll_12_c0, mg::step_poll_unbounded(&MUCfg { caps: [1, 2], cursor: 0, selfwakes: 0, items: 1 }));
harness!(mu_push_12, mg::step_push_unbounded(&MUCfg { caps: [1, 2], cursor: 0, selfwakes: 0, items: 0 }));
harness!(mb_push_c2, mg::step_push(&MCfg { cap: 2, selfwakes: 0, items: 0, quiet: false }));
harness!(mb_end_many_6, mg::end_many());
harness!(mu_rot_124_c0, mg::rot_unbounded(0, 0b001, 0b001));
harness!(mu_rot_124_c1, mg::rot_unbounded(1, 0b111, 0b011));
harness!(fub_stale_many, fub::stale_many());
harness!(fub_budget_fifo, fub::budget_fifo());
harness!(mu_poll_12_c1, mg::step_poll_unbounded(&MUCfg { caps: [1, 2], cursor: 1, selfwakes: 0, items: 1 }));
// buffered adapters
harness!(ad_bu_n2, ad::step_buffer_unordered(&ACfg { n: 2, selfwakes: 0, parked: 0, max_remaining: 2 }));
harness!(ad_bu_n3, ad::step_buffer_unordered(&ACfg { n: 3, selfwakes: 0, parked: 0, max_remaining: 3 }));
harness!(ad_bu_n1, ad::step_buffer_unordered(&ACfg { n: 1, selfwakes: 1, parked: 0, max_remaining: 2 }));
harness!(ad_tbu_n2, ad::step_try_buffer_unordered(&ACfg { n: 2, selfwakes: 0, parked: 0, max_remaining: 2 }));
harness!(ad_fe_n1, ad::step_for_each(&ACfg { n: 1, selfwakes: 0, parked: 0, max_remaining: 1 }));
harness!(ad_fe_n2, ad::step_for_each(&ACfg { n: 2, selfwakes: 0, parked: 0, max_remaining: 1 }));
harness!(ad_fe_n0, ad::step_for_each(&ACfg { n: 0, selfwakes: 0, parked: 0, max_remaining: 1 }));
harness!(ad_bo_n2, ad::step_buffered_ordered(&ACfg { n: 2, selfwakes: 0, parked: 1, max_remaining: 2 }, false));
harness!(ad_bo_n1, ad::step_buffered_ordered(&ACfg { n: 1, selfwakes: 0, parked: 0, max_remaining: 2 }, false));
harness!(ad_tbu_n1, ad::step_try_buffer_unordered(&ACfg { n: 1, selfwakes: 0, parked: 0, max_remaining: 2 }));
harness!(ad_bo_n2_p0, ad::step_buffered_ordered(&ACfg { n: 2, selfwakes: 0, parked: 0, max_remaining: 2 }, false));
harness!(ad_tbo_n2_q0, ad::step_buffered_ordered_q(&ACfg { n: 2, selfwakes: 0, parked: 1, max_remaining: 2 }, true, true));
harness!(ad_tbo_n2, ad::step_buffered_ordered(&ACfg { n: 2, selfwakes: 0, parked: 1, max_remaining: 2 }, true));
// join_all / try_join_all
harness!(ja_poll_n2, ja::step_join_all(&JCfg { n: 2, selfwakes: 0 }));
harness!(ja_poll_n3, ja::step_join_all(&JCfg { n: 3, selfwakes: 0 }));
harness!(tja_poll_n2, ja::step_try_join_all(&JCfg { n: 2, selfwakes: 0 }));

// Layer W: the real waker_list.rs (run with layer "real"); on the model build the same shapes check the model
harness!(wm_lifecycle_c2, crate::wl::lifecycle(2));
harness!(wl_fifo_c2, crate::wl::fifo(2));
harness!(wl_shape0_c1, crate::wl::shape(1, 0));
harness!(wl_shape0_c2, crate::wl::shape(2, 0));
harness!(wl_shape0_c3, crate::wl::shape(3, 0));
harness!(wl_shape1_c2, crate::wl::shape(2, 1));
harness!(wl_shape2_c2, crate::wl::shape(2, 2));
harness!(wl_shape2_c3, crate::wl::shape(3, 2));
harness!(wl_shape3_c2, crate::wl::shape(2, 3));
harness!(wl_layout, crate::wl::layout_arith());
harness!(wl_real_stack_1, crate::wl::real_stack(1));
harness!(wl_real_stack_2, crate::wl::real_stack(2));
// the same shapes on the reference model (refinement: the model answers like the real list)
harness!(wm_fifo_c2, crate::wl::fifo(2));
harness!(wm_shape0_c2, crate::wl::shape(2, 0));
harness!(wm_shape1_c2, crate::wl::shape(2, 1));
harness!(wm_shape2_c2, crate::wl::shape(2, 2));
harness!(wm_shape3_c2, crate::wl::shape(2, 3));
#[cfg(all(kani, not(futures_buffered_verif_model)))]
#[kani::proof]
pub fn wl_vt_mirror() {
    crate::gh::vt_mirror_selftest()
}

/// name -> function, for the native replayer
pub fn table() -> &'static [(&'static str, fn())] {
    &[
        ("fub_poll_c2", fub_poll_c2),
        ("fub_poll_c1", fub_poll_c1),
        ("fub_poll_c3", fub_poll_c3),
        ("fub_poll_c2_quiet", fub_poll_c2_quiet),
        ("fub_poll_c2_env", fub_poll_c2_env),
        ("fub_poll_budget", fub_poll_budget),
        ("fub_poll_budget_61", fub_poll_budget_61),
        ("fub_poll_budget_3", fub_poll_budget_3),
        ("fub_poll_budget_many", fub_poll_budget_many),
        ("fub_push_c2", fub_push_c2),
        ("fub_push_c0", fub_push_c0),
        ("fub_wake_c2", fub_wake_c2),
        ("fub_drop_c2", fub_drop_c2),
        ("sm_step_c3", sm_step_c3),
        ("ctor_fub_from_iter", ctor_fub_from_iter),
        ("ctor_fob_from_iter", ctor_fob_from_iter),
        ("ctor_fu_0", ctor_fu_0),
        ("ctor_fu_2", ctor_fu_2),
        ("ctor_mb_from_iter", ctor_mb_from_iter),
        ("reach_fub_c2_s3", reach_fub_c2_s3),
        ("sm_step_c4", sm_step_c4),
        ("wm_lifecycle_c2", wm_lifecycle_c2),
        ("wl_fifo_c2", wl_fifo_c2),
        ("wl_shape0_c1", wl_shape0_c1),
        ("wl_shape0_c2", wl_shape0_c2),
        ("wl_shape0_c3", wl_shape0_c3),
        ("wl_shape1_c2", wl_shape1_c2),
        ("wl_shape2_c2", wl_shape2_c2),
        ("wl_shape2_c3", wl_shape2_c3),
        ("wl_shape3_c2", wl_shape3_c2),
        ("wl_layout", wl_layout),
        ("wl_real_stack_1", wl_real_stack_1),
        ("wl_real_stack_2", wl_real_stack_2),
        ("wm_shape3_c2", wm_shape3_c2),
        ("wm_fifo_c2", wm_fifo_c2),
        ("wm_shape0_c2", wm_shape0_c2),
        ("wm_shape1_c2", wm_shape1_c2),
        ("wm_shape2_c2", wm_shape2_c2),
        ("fu_poll_12", fu_poll_12),
        ("fu_poll_12_quiet", fu_poll_12_quiet),
        ("fu_poll_2", fu_poll_2),
        ("fu_rot_124_c0", fu_rot_124_c0),
        ("fu_rot_124_c1", fu_rot_124_c1),
        ("fu_cur_12_c1", fu_cur_12_c1),
        ("fu_cur_12_c0", fu_cur_12_c0),
        ("fu_cur_124_c0", fu_cur_124_c0),
        ("fu_cur_124_c2", fu_cur_124_c2),
        ("fob_poll_c2", fob_poll_c2),
        ("fob_poll_c2_p2", fob_poll_c2_p2),
        ("fob_poll_c1_p2", fob_poll_c1_p2),
        ("fob_poll_drop_c2", fob_poll_drop_c2),
        ("fob_poll_c3", fob_poll_c3),
        ("mb_poll_c3", mb_poll_c3),
        ("fub_push_c3", fub_push_c3),
        ("fub_wake_c3", fub_wake_c3),
        ("fob_push_c2", fob_push_c2),
        ("fob_new", fob_new),
        ("fob_drop_c2", fob_drop_c2),
        ("mu_push_12", mu_push_12),
        ("fo_new", fo_new),
        ("fo_poll_c2", fo_poll_c2),
        ("fo_observe_c2", fo_observe_c2),
        ("fo_poll_c1", fo_poll_c1),
        ("fo_poll_c1_p0", fo_poll_c1_p0),
        ("fo_poll_c2_lo", fo_poll_c2_lo),
        ("fo_poll_c2_hi", fo_poll_c2_hi),
        ("fob_poll_c2_p0", fob_poll_c2_p0),
        ("ja_poll_n2", ja_poll_n2),
        ("tja_poll_n2", tja_poll_n2),
        ("ja_poll_n3", ja_poll_n3),
        ("ad_bu_n2", ad_bu_n2),
        ("ad_bu_n1", ad_bu_n1),
        ("ad_bu_n3", ad_bu_n3),
        ("ad_tbu_n2", ad_tbu_n2),
        ("ad_fe_n2", ad_fe_n2),
        ("ad_fe_n1", ad_fe_n1),
        ("ad_fe_n0", ad_fe_n0),
        ("ad_bo_n2", ad_bo_n2),
        ("ad_tbo_n2_q0", ad_tbo_n2_q0),
        ("fob_poll_drop_c1", fob_poll_drop_c1),
        ("fob_poll_drop_c1_hi", fob_poll_drop_c1_hi),
        ("ad_bo_n2_p0", ad_bo_n2_p0),
        ("ad_bo_n1", ad_bo_n1),
        ("ad_tbu_n1", ad_tbu_n1),
        ("ad_tbo_n2", ad_tbo_n2),
        ("mb_poll_c2", mb_poll_c2),
        ("mb_poll_c2_quiet", mb_poll_c2_quiet),
        ("mu_poll_12_c0", mu_poll_12_c0),
        ("mu_poll_12_c1", mu_poll_12_c1),
        ("mb_end_many_6", mb_end_many_6),
        ("mb_push_c2", mb_push_c2),
        ("mu_rot_124_c0", mu_rot_124_c0),
        ("mu_rot_124_c1", mu_rot_124_c1),
        ("fub_stale_many", fub_stale_many),
        ("fub_budget_fifo", fub_budget_fifo),
        ("fu_poll_12_c1", fu_poll_12_c1),
        ("fu_poll_12_c2", fu_poll_12_c2),
        ("fu_push_12", fu_push_12),
        ("fu_push_2", fu_push_2),
        ("fub_push_c2_inflight", fub_push_c2_inflight),
        ("fub_wake_c2_inflight", fub_wake_c2_inflight),
        ("fub_poll_c2_inflight", fub_poll_c2_inflight),
        ("fub_poll_c2_handles", fub_poll_c2_handles),
    ]
}




