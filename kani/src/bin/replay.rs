//! Native replayer: runs a harness scenario against the natively compiled crate
//! (real `waker_list` unless built with --cfg futures_buffered_verif_model),
//! feeding the values of a counterexample tape to `nd::*` in call order.
//!
//!   replay <harness> <tape.json>      tape.json = {"vals": [u64, ...]}
//!
//! prints one JSON line: fired monitors, covers, assumption/tape status, panic.
#[cfg(all(futures_buffered_verif, not(kani)))]
#[global_allocator]
static GLOBAL: fbv::gh::counting_alloc::Counting = fbv::gh::counting_alloc::Counting;

#[cfg(all(futures_buffered_verif, not(kani)))]
fn main() {
    use fbv::nd::tape;
    use std::io::Read;
    let args: Vec<String> = std::env::args().collect();
    if args.len() == 2 && args[1] == "--list" {
        for (n, _) in fbv::harnesses::table() {
            println!("{n}");
        }
        return;
    }
    if args.len() != 3 {
        eprintln!("usage: replay <harness> <tape.json> | --list");
        std::process::exit(64);
    }
    let mut s = String::new();
    std::fs::File::open(&args[2]).unwrap().read_to_string(&mut s).unwrap();
    // minimal JSON: find the "vals" array
    let a = s.find("\"vals\"").expect("vals");
    let lb = s[a..].find('[').unwrap() + a;
    let rb = s[lb..].find(']').unwrap() + lb;
    let vals: Vec<u64> = s[lb + 1..rb]
        .split(',')
        .filter(|t| !t.trim().is_empty())
        .map(|t| t.trim().parse::<u64>().unwrap())
        .collect();
    let f = fbv::harnesses::table()
        .iter()
        .find(|(n, _)| *n == args[1])
        .map(|(_, f)| *f)
        .unwrap_or_else(|| {
            eprintln!("unknown harness {}", args[1]);
            std::process::exit(65)
        });
    tape::load(vals);
    std::panic::set_hook(Box::new(|_| {}));
    let r = std::panic::catch_unwind(f);
    let mut panic_msg = String::new();
    let mut assume_failed = String::new();
    if let Err(e) = r {
        if let Some(a) = e.downcast_ref::<fbv::nd::AssumeFailed>() {
            assume_failed = a.0.to_string();
        } else if let Some(m) = e.downcast_ref::<&str>() {
            panic_msg = m.to_string();
        } else if let Some(m) = e.downcast_ref::<String>() {
            panic_msg = m.clone();
        } else {
            panic_msg = "panic".into();
        }
    }
    let q = |v: &Vec<&'static str>| {
        v.iter()
            .map(|l| format!("\"{}\"", l.replace('"', "'")))
            .collect::<Vec<_>>()
            .join(",")
    };
    #[allow(static_mut_refs)]
    unsafe {
        println!(
            "{{\"harness\":\"{}\",\"fired\":[{}],\"covered\":[{}],\"assume_failed\":\"{}\",\"tape_exhausted\":{},\"tape_used\":{},\"tape_len\":{},\"panic\":\"{}\"}}",
            args[1],
            q(&tape::FIRED),
            q(&tape::COVERED),
            assume_failed,
            tape::EXHAUSTED,
            tape::POS,
            tape::TAPE.len(),
            panic_msg.replace('"', "'").replace('\n', " ")
        );
    }
}

#[cfg(not(all(futures_buffered_verif, not(kani))))]
fn main() {
    eprintln!("build with RUSTFLAGS=\"--cfg futures_buffered_verif\"");
    std::process::exit(64);
}
