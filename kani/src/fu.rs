//! Step scenarios on `FuturesUnordered<Fut>` (unbounded: a list of bounded
//! groups of increasing capacity with a round-robin cursor).
//!
//! INV_unbounded = per group INV_bounded, plus
//!   U1 capacities strictly increasing (the last group is the largest)
//!   U2 rem == sum of the groups' held counts
//!   U3 cursor <= number of groups
//!   U4 a group other than the last is empty only at the cursor position
//!      (it yielded its last future at the cursor and is discarded by the
//!      next poll before anything else happens)
#![allow(static_mut_refs)]

use crate::child::Fut;
use crate::fub::{self, Pre};
use crate::gh::{self, g, MAXS};
use crate::nd;
use crate::{vassert, vcover};
use core::pin::Pin;
use core::task::{Context, Poll};
use futures_buffered::verif::{self as v, Snap};
use futures_buffered::{FuturesUnordered, FuturesUnorderedBounded};
use futures_core::Stream;

pub const MAXG: usize = 3;

pub struct UCfg {
    /// capacities of the groups of the pre-state (strictly increasing)
    pub caps: [usize; MAXG],
    pub n: usize,
    pub selfwakes: u8,
    pub quiet: bool,
    /// cursor of the pre-state (concrete per harness: a symbolic cursor makes
    /// every access to the polled group go through a symbolic pointer)
    pub cursor: usize,
    /// per group: at most this many ready-queue entries in the pre-state
    pub qmax: [usize; MAXG],
}

pub struct UPre {
    pub n: usize,
    pub caps: [usize; MAXG],
    pub g: [Pre; MAXG],
    pub base: [usize; MAXG],
    pub cursor: usize,
    pub rem: usize,
}

pub fn gen_upre(c: &UCfg) -> UPre {
    let mut base = [0usize; MAXG];
    let mut b = 0;
    let mut k = 0;
    while k < c.n {
        base[k] = b;
        b += c.caps[k];
        k += 1;
    }
    // all groups share the registration status of "the last poll" only through
    // their own state: every group has its own waker list
    let p0 = fub::gen_pre_q(c.caps[0], false, c.qmax[0]);
    let mut pre = UPre {
        n: c.n,
        caps: c.caps,
        g: [p0, p0, p0],
        base,
        cursor: 0,
        rem: 0,
    };
    let mut k = 1;
    while k < c.n {
        pre.g[k] = fub::gen_pre_q(c.caps[k], false, c.qmax[k]);
        k += 1;
    }
    let mut k = 0;
    while k < c.n {
        if c.qmax[k] < 8 {
            fub::gen_ghost_b(&pre.g[k], k, base[k]);
        } else if pre.g[k].filled > 0 {
            // concrete group: its one child was polled before and sleeps
            g().polls[base[k]] = 1;
        }
        pre.rem += pre.g[k].filled;
        k += 1;
    }
    pre.cursor = c.cursor;
    // U4
    let mut k = 0;
    while k + 1 < c.n {
        nd::assume(pre.g[k].filled > 0 || k == pre.cursor, "U4");
        k += 1;
    }
    pre
}

pub fn build(c: &UCfg, pre: &UPre) -> FuturesUnordered<Fut> {
    let mut groups = std::vec::Vec::with_capacity(c.n + 1);
    let mut k = 0;
    while k < c.n {
        groups.push(fub::build_b(&pre.g[k], k as u8, pre.base[k]));
        k += 1;
    }
    FuturesUnordered::verif_from_parts(groups, pre.rem, pre.cursor)
}

/// post-state of the group that had capacity `caps[k]` in the pre-state
pub struct GPost {
    pub present: bool,
    /// index in the post group list
    pub at: usize,
    pub snap: Option<Snap>,
}

/// locate the pre-state groups in the post-state (capacities are distinct)
pub fn post_groups(f: &mut FuturesUnordered<Fut>, c: &UCfg, pre: &UPre, t: usize) -> ([GPost; MAXG], usize, usize, usize) {
    let w = gh::task_waker(t);
    let (groups, rem, cursor) = f.verif_parts();
    let n2 = groups.len();
    let mut out = [
        GPost { present: false, at: 0, snap: None },
        GPost { present: false, at: 0, snap: None },
        GPost { present: false, at: 0, snap: None },
    ];
    let _ = pre;
    let mut k = 0;
    while k < c.n {
        let mut j = 0;
        // a poll never creates a group; a push appends at most one
        while j < c.n + 1 {
            if j < n2 && !out[k].present && groups[j].capacity() == c.caps[k] {
                out[k].present = true;
                out[k].at = j;
                out[k].snap = Some(v::fub_snapshot(&mut groups[j], c.caps[k], &w, &|| g().task_wakes[t]));
            }
            j += 1;
        }
        k += 1;
    }
    core::mem::forget(w);
    (out, n2, rem, cursor)
}

/// U1..U4 and the per-group invariants on the post-state
pub fn check_post_inv(c: &UCfg, pre: &UPre, post: &[GPost; MAXG], n2: usize, rem2: usize, cursor2: usize, extra_filled: usize) {
    let mut sum = extra_filled;
    let mut present = 0;
    let mut k = 0;
    while k < c.n {
        if post[k].present {
            present += 1;
            if let Some(s) = &post[k].snap {
                fub::check_inv_post(s, k, fub::M_ALL);
                sum += s.filled;
                // U4
                let last = post[k].at + 1 == n2;
                vassert!(
                    s.filled > 0 || last || post[k].at == cursor2,
                    "C02:an empty inner group is kept away from the cursor (it would be polled late or never discarded)"
                );
            }
            // U1: relative order of the surviving groups preserved, except
            // that the largest may have been rotated to the end (it already is last)
            let mut k2 = k + 1;
            while k2 < c.n {
                if post[k2].present {
                    vassert!(post[k].at < post[k2].at, "C18:groups no longer ordered by capacity (largest must stay last)");
                }
                k2 += 1;
            }
        }
        k += 1;
    }
    vassert!(rem2 == sum, "C15:held count differs from the sum over the groups");
    vassert!(cursor2 <= n2, "C13:group cursor out of range");
    let _ = present;
}

/// Step(poll_next)
pub fn step_poll(c: &UCfg) {
    gh::reset();
    let pre = gen_upre(c);
    let mut f = build(c, &pre);
    let gh = g();
    gh.selfwake_left = if c.quiet { 0 } else { c.selfwakes };
    let t = nd::below(2) as usize;
    let w = gh::task_waker(t);
    let wakes0 = gh.task_wakes;
    vassert!(f.len() == pre.rem && f.is_empty() == (pre.rem == 0), "C15:len/is_empty differ from the number of held futures");
    vassert!(f.size_hint() == (pre.rem, Some(pre.rem)), "C17:size_hint differs from the number of held futures");

    let mut cx = Context::from_waker(&w);
    let a0 = gh::allocs();
    gh::alloc_track(true);
    let r = Pin::new(&mut f).poll_next(&mut cx);
    gh::alloc_track(false);
    vassert!(gh::allocs() == a0, "C18:FuturesUnordered allocated during poll_next");

    let woken_t = gh.task_wakes[t] > wakes0[t];
    let (post, n2, rem2, cursor2) = post_groups(&mut f, c, &pre, t);
    check_post_inv(c, &pre, &post, n2, rem2, cursor2, 0);
    vassert!(n2 <= pre.n, "C18:a poll created a group");
    vcover!(n2 < pre.n, "cover:group_discarded");
    vassert!(n2 >= 1, "C18:a poll discarded the last (largest) group");
    vassert!(post[c.n - 1].present, "C18:a poll discarded the largest group");

    check_addrs(&mut f, c, &pre, &post);

    match r {
        Poll::Ready(Some(x)) => {
            let x = x as usize;
            vassert!(x < gh::NCH && gh.done[x] && gh.polls_in_call[x] >= 1, "C02:yielded output of a future that did not complete in this call");
            vassert!(rem2 + 1 == pre.rem, "C02:held count not decremented by one");
            vassert!(gh.drops[x] == 1, "C05:finished future not dropped when its output is handed out");
            let mut k = 0;
            while k < c.n {
                let mut i = 0;
                while i < c.caps[k] {
                    let id = pre.base[k] + i;
                    if id != x {
                        vassert!(!gh.done[id] || gh.polls_in_call[id] == 0, "C02:a completed future's output was dropped");
                    }
                    i += 1;
                }
                k += 1;
            }
            vcover!(true, "cover:yield");
        }
        Poll::Ready(None) => {
            vassert!(pre.rem == 0, "C02:Ready(None) while futures are held");
            vcover!(pre.n == 2, "cover:none_two_groups");
        }
        Poll::Pending => {
            vassert!(pre.rem > 0, "C02:Pending although nothing is held");
            vassert!(rem2 == pre.rem, "C02:held count changed by a Pending poll");
            let mut k = 0;
            while k < c.n {
                let mut i = 0;
                while i < c.caps[k] {
                    let id = pre.base[k] + i;
                    vassert!(!gh.done[id] || gh.polls_in_call[id] == 0, "C02:a completed future's output was dropped");
                    i += 1;
                }
                k += 1;
            }
            // C13 across groups: a Pending answer means every group was visited, and
            // a visit polls every queued child (far fewer than the budget here): a
            // child that was woken before this call has been polled by it
            let mut k = 0;
            while k < c.n {
                let mut i = 0;
                while i < c.caps[k] {
                    if pre.g[k].occ[i] && pre.g[k].queued(i) {
                        vassert!(gh.polls_in_call[pre.base[k] + i] >= 1, "C13:Pending although a woken child of some group was not polled by this call (it can wait for ever)");
                    }
                    i += 1;
                }
                k += 1;
            }
            // C01: every remaining group was polled with this task waker:
            // registered (or woken), and no queued held child left un-polled
            let mut k = 0;
            while k < c.n {
                if post[k].present {
                    if let Some(s) = &post[k].snap {
                        if s.filled > 0 {
                            vassert!(woken_t || s.registered, "C01:Pending, a non-empty group is neither registered with this task waker nor was the task woken");
                        }
                        if !woken_t {
                            let occ = fub::snap_occ_pub(s);
                            let mut q = 0;
                            while q < c.caps[k] {
                                if q < s.qlen {
                                    vassert!(!occ[s.q[q].slot % MAXS], "C01:Pending with a queued held child left un-polled, task not woken");
                                    vassert!(!occ[s.q[q].slot % MAXS], "C02:Pending with a queued held future left un-polled and nobody told: its output will never be yielded");
                                }
                                q += 1;
                            }
                        }
                        if c.quiet || gh.child_wakes == 0 {
                            vassert!(!woken_t, "C14:task woken although no child waker was invoked");
                        }
                    }
                }
                k += 1;
            }
            vcover!(pre.n == 2 && pre.g[0].filled > 0 && pre.g[1].filled > 0, "cover:pending_two_groups");
        }
    }
    // C12/C13: only queued children are polled, at most once per notification; bounded work
    let mut k = 0;
    while k < c.n {
        let mut i = 0;
        while i < c.caps[k] {
            let id = pre.base[k] + i;
            if pre.g[k].occ[i] {
                vassert!(gh.polls_in_call[id] == 0 || pre.g[k].queued(i) || gh.child_wakes > 0, "C12:child polled without being queued or woken");
                if gh.child_wakes == 0 {
                    vassert!(gh.polls_in_call[id] <= 1, "C12:child polled twice for one notification");
                }
            }
            i += 1;
        }
        k += 1;
    }
    vassert!(gh.total_child_polls <= fub::BUDGET * pre.n, "C13:more child polls in one call than the budget allows");
    vassert!(f.len() == rem2 && f.is_empty() == (rem2 == 0), "C15:len/is_empty differ from the number of held futures");
    vassert!(f.size_hint() == (rem2, Some(rem2)), "C17:size_hint differs from the number of held futures");
    vassert!(gh.task_wakes[1 - t] == wakes0[1 - t] || anyreg(c, &pre, 1 - t), "C01:a task waker that was never registered was invoked");
    core::mem::forget(f);
}

/// C08: every held child still sits at its first-poll address
pub fn check_addrs(f: &mut FuturesUnordered<Fut>, c: &UCfg, pre: &UPre, post: &[GPost; MAXG]) {
    let _ = pre;
    let gh = g();
    let mut k = 0;
    while k < c.n {
        if post[k].present {
            let (groups, _, _) = f.verif_parts();
            let mut j = 0;
            while j < c.n {
                if j == post[k].at {
                    let mut i = 0;
                    while i < c.caps[k] {
                        if let Some(ch) = v::fub_peek(&groups[j], i) {
                            let id = ch.id as usize;
                            vassert!(gh.addr[id] == 0 || gh.addr[id] == ch as *const Fut as usize, "C08:held child moved");
                        }
                        i += 1;
                    }
                }
                j += 1;
            }
        }
        k += 1;
    }
}

fn anyreg(c: &UCfg, pre: &UPre, t: usize) -> bool {
    let mut r = false;
    let mut k = 0;
    while k < c.n {
        if pre.g[k].reg && pre.g[k].reg_t == t {
            r = true;
        }
        k += 1;
    }
    r
}

/// Step(push): the last group takes it, or a group of twice its capacity is appended
pub fn step_push(c: &UCfg) {
    gh::reset();
    let pre = gen_upre(c);
    let mut f = build(c, &pre);
    let gh = g();
    let id = gh::NCH - 1;
    let wakes0 = gh.task_wakes;
    let cap_before = f.capacity();
    let a0 = gh::allocs();
    gh::alloc_track(true);
    f.push(Fut::new(id as u8));
    gh::alloc_track(false);
    let da = gh::allocs() - a0;
    let (post, n2, rem2, cursor2) = post_groups(&mut f, c, &pre, 0);
    let last = c.n - 1;
    let full = pre.g[last].filled == c.caps[last];
    vassert!(rem2 == pre.rem + 1, "C15:len not incremented by a push");
    vassert!(gh.drops[id] == 0, "C06:pushed future dropped");
    vassert!(gh.task_wakes[0] == wakes0[0] && gh.task_wakes[1] == wakes0[1], "C14:push invoked a task waker");
    vassert!(gh.total_child_polls == 0, "C12:push polled a child");
    vassert!(cursor2 == pre.cursor, "C13:push moved the group cursor");
    if full {
        vassert!(n2 == pre.n + 1, "C18:no group appended although the last group is full");
        // slots, waker list, (amortised) growth of the group list
        vassert!(da <= 3, "C18:more than three allocations for a new group");
        let (groups, _, _) = f.verif_parts();
        // at least doubling keeps the number of groups logarithmic in the peak; the
        // rest of this harness is written for the doubling policy (another factor
        // ends here without a reachability witness: inconclusive, not a violation)
        vassert!(groups[n2 - 1].capacity() >= 2 * c.caps[last], "C18:new group does not (at least) double the capacity");
        nd::assume(groups[n2 - 1].capacity() == 2 * c.caps[last], "doubling policy");
        vassert!(groups[n2 - 1].len() == 1, "C02:pushed future not held by the new group");
        let s = fub::snap(&mut groups[n2 - 1], 2 * c.caps[last], 0);
        vassert!(s.qlen == 1, "C01:pushed future not marked ready");
        // nothing but the pushed future may have entered the new group
        let mut i = 0;
        while i < 2 * c.caps[last] {
            if let Some(ch) = v::fub_peek(&groups[n2 - 1], i) {
                let cid = ch.id as usize;
                vassert!(cid == id, "C08:a held future was moved into the new group");
                vassert!(gh.addr[cid % gh::NCH] == 0 || gh.addr[cid % gh::NCH] == ch as *const Fut as usize, "C08:held child moved");
            }
            i += 1;
        }
        check_post_inv(c, &pre, &post, n2, rem2, cursor2, 1);
        vcover!(true, "cover:push_new_group");
    } else {
        vassert!(n2 == pre.n, "C18:group appended although the last group has room");
        vassert!(da == 0, "C18:FuturesUnordered allocated for a push although the last group has room");
        gh.slot_of[id] = pre.g[last].free_head as u8;
        gh.group_of[id] = last as u8;
        gh.set_needs(last, pre.g[last].free_head % MAXS, true);
        gh.set_fresh(last, pre.g[last].free_head % MAXS, true);
        if let Some(s) = &post[last].snap {
            vassert!(s.filled == pre.g[last].filled + 1, "C02:pushed future not held by the last group");
            vassert!(s.queued(pre.g[last].free_head), "C01:pushed future not marked ready");
        }
        check_post_inv(c, &pre, &post, n2, rem2, cursor2, 0);
        vcover!(true, "cover:push_last_group");
    }
    // earlier groups untouched
    let mut k = 0;
    while k + 1 < c.n {
        if let Some(s) = &post[k].snap {
            vassert!(s.filled == pre.g[k].filled && s.qlen == pre.g[k].qlen, "C02:push disturbed another group");
        }
        vassert!(post[k].present && post[k].at == k, "C08:push moved a group");
        k += 1;
    }
    check_addrs(&mut f, c, &pre, &post);
    vassert!(f.len() == rem2, "C15:len differs from the number of held futures");
    vassert!(f.capacity() >= rem2 && f.capacity() >= cap_before, "C15:capacity() shrank or is below len");
    core::mem::forget(f);
}
