//! throw-away sizing probes
use crate::fub::{self, StepCfg};
use crate::gh::{self, g};
use crate::nd;
use core::pin::Pin;
use core::task::{Context, Poll};
use futures_core::Stream;

macro_rules! harness {
    ($name:ident, $body:expr) => {
        #[cfg_attr(kani, kani::proof)]
        #[cfg_attr(all(kani, futures_buffered_verif_model), kani::stub(core::task::Waker::wake_by_ref, crate::gh::stub_wake_by_ref))]
        #[cfg_attr(all(kani, futures_buffered_verif_model), kani::stub(core::task::Waker::wake, crate::gh::stub_wake))]
        #[cfg_attr(all(kani, futures_buffered_verif_model), kani::stub(<core::task::Waker as core::clone::Clone>::clone, crate::gh::stub_clone))]
        #[cfg_attr(all(kani, futures_buffered_verif_model), kani::stub(<core::task::Waker as core::ops::Drop>::drop, crate::gh::stub_drop))]
        pub fn $name() {
            $body
        }
    };
}

harness!(p_build, {
    gh::reset();
    let p = fub::gen_pre(2, false);
    fub::gen_ghost(&p, 0);
    let f = fub::build(&p, 0);
    assert!(f.len() == p.filled);
    core::mem::forget(f);
});

harness!(p_poll, {
    gh::reset();
    let p = fub::gen_pre(2, false);
    fub::gen_ghost(&p, 0);
    let mut f = fub::build(&p, 0);
    let w = gh::task_waker(0);
    let mut cx = Context::from_waker(&w);
    let r = Pin::new(&mut f).poll_next(&mut cx);
    if let Poll::Ready(None) = r {
        assert!(p.filled == 0);
    }
    core::mem::forget(f);
});

harness!(p_poll_snap, {
    gh::reset();
    let p = fub::gen_pre(2, false);
    fub::gen_ghost(&p, 0);
    let mut f = fub::build(&p, 0);
    let w = gh::task_waker(0);
    let mut cx = Context::from_waker(&w);
    let r = Pin::new(&mut f).poll_next(&mut cx);
    let s = fub::snap(&mut f, 2, 0);
    if let Poll::Ready(None) = r {
        assert!(p.filled == 0 && s.filled == 0);
    }
    core::mem::forget(f);
});

harness!(p_fail, {
    let x = nd::u8_any();
    let y = nd::usize_any();
    let z = nd::below(5);
    crate::vassert!(!(x == 7 && y == 0x1234 && z == 3), "T:deliberate failure");
});
