//! verif hook (child module of `buffered::for_each`)
use super::*;

impl<St, Fut, F> ForEachConcurrent<St, Fut, F>
where
    St: Stream,
    F: FnMut(St::Item) -> Fut,
    Fut: Future<Output = ()>,
{
    pub fn verif_from_parts(stream: Option<St>, f: F, futures: FuturesUnorderedBounded<Fut>) -> Self {
        Self { stream, f, futures }
    }
    pub fn verif_stream_present(&self) -> bool {
        self.stream.is_some()
    }
    pub fn verif_futures(&mut self) -> &mut FuturesUnorderedBounded<Fut> {
        &mut self.futures
    }
}
