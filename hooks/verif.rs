//! `futures_buffered::verif` — hook API for the /verif harness crate.
//! Compiled only with `--cfg futures_buffered_verif`; with
//! `--cfg futures_buffered_verif_model` the `waker_list` module is the
//! sequential reference model (/verif/hooks/waker_model.rs).
#![allow(dead_code, static_mut_refs, clippy::all)]

use crate::waker_list::WakerList;
use crate::FuturesUnorderedBounded;
use core::task::Waker;

pub const MAXC: usize = 8;

// ---------------------------------------------------------------- environment

static mut SCHED: Option<fn(u8)> = None;
static mut ALLOCS: usize = 0;
static mut FREES: usize = 0;
static mut LAST_BLOCK: usize = 0;

/// Install the callback run at every `WakerList` operation boundary.
pub fn set_sched(f: Option<fn(u8)>) {
    unsafe { SCHED = f }
}

#[inline]
pub(crate) fn sched_point(k: u8) {
    if let Some(f) = unsafe { SCHED } {
        f(k)
    }
}

pub(crate) fn probe_alloc(p: usize) {
    unsafe {
        ALLOCS += 1;
        LAST_BLOCK = p;
    }
}
pub(crate) fn probe_release(_p: usize) {
    unsafe { FREES += 1 }
}
/// (blocks allocated, blocks released) by `WakerList`
pub fn probe_counts() -> (usize, usize) {
    unsafe { (ALLOCS, FREES) }
}
pub fn probe_reset() {
    unsafe {
        ALLOCS = 0;
        FREES = 0;
    }
}

// ---------------------------------------------------------------- queue state

#[derive(Clone, Copy, PartialEq, Eq, Debug)]
pub struct QEntry {
    pub slot: usize,
    pub inflight: bool,
}

/// Representation state of one `FuturesUnorderedBounded`
#[derive(Clone, Copy, Debug)]
pub struct Snap {
    pub cap: usize,
    pub filled: usize,
    pub free_head: usize,
    /// `None` occupied, `Some(n)` NextFree(n)
    pub next_free: [Option<usize>; MAXC],
    pub qlen: usize,
    pub q: [QEntry; MAXC],
    pub registered: bool,
}

impl Snap {
    pub fn occupied(&self, i: usize) -> bool {
        i < self.cap && self.next_free[i].is_none()
    }
    pub fn queued(&self, i: usize) -> bool {
        self.qpos(i).is_some()
    }
    pub fn qpos(&self, i: usize) -> Option<usize> {
        let mut r = None;
        let mut k = 0;
        while k < self.cap && k < MAXC {
            if k < self.qlen && self.q[k].slot == i && r.is_none() {
                r = Some(k);
            }
            k += 1;
        }
        r
    }
}

#[cfg(futures_buffered_verif_model)]
mod list_impl {
    use super::*;

    pub(super) fn build(cap: usize, qlen: usize, q: &dyn Fn(usize) -> QEntry) -> WakerList {
        let list = WakerList::new(cap);
        // concrete loop bound (cap); qlen <= cap is part of the invariant
        for k in 0..cap {
            if k < qlen {
                let e = q(k);
                if e.inflight {
                    list.inner().wake_begin(e.slot);
                } else {
                    unsafe { list.push(e.slot) };
                }
            }
        }
        list
    }

    pub(super) fn snap_queue(
        list: &mut WakerList,
        s: &mut Snap,
        probe: &Waker,
        _task_wakes: &dyn Fn() -> usize,
    ) {
        let inner = list.inner();
        let mut k = 0;
        // concrete loop bound
        while k < s.cap && k < MAXC {
            if k < inner.qlen.get() {
                s.q[k] = QEntry {
                    slot: inner.q_at(k),
                    inflight: inner.inflight_at(k),
                };
            }
            k += 1;
        }
        s.qlen = inner.qlen.get();
        s.registered = inner.registered.get()
            && match unsafe { &*inner.task.get() } {
                Some(t) => t.will_wake(probe),
                None => false,
            };
    }

    pub fn list_strong(list: &WakerList) -> usize {
        list.inner().strong.get()
    }
    pub fn list_wake_begin(list: &WakerList, i: usize) -> bool {
        list.inner().wake_begin(i)
    }
    pub fn list_wake_finish(list: &WakerList, i: usize) {
        list.inner().wake_finish(i)
    }
    pub fn list_inflight(list: &WakerList, i: usize) -> bool {
        list.inner().slot_inflight(i)
    }
    pub fn list_flag(list: &WakerList, i: usize) -> bool {
        list.inner().flag(i)
    }
}

#[cfg(not(futures_buffered_verif_model))]
mod list_impl {
    use super::*;
    use crate::waker_list::ReadySlot;

    pub(super) fn build(cap: usize, qlen: usize, q: &dyn Fn(usize) -> QEntry) -> WakerList {
        let list = WakerList::new(cap);
        for k in 0..cap {
            if k < qlen {
                let e = q(k);
                assert!(!e.inflight, "in-flight enqueue cannot be built on the real list");
                unsafe { list.push(e.slot) };
            }
        }
        list
    }

    /// destructive on the real list: drains the queue, probes the registration
    pub(super) fn snap_queue(
        list: &mut WakerList,
        s: &mut Snap,
        _probe: &Waker,
        task_wakes: &dyn Fn() -> usize,
    ) {
        let mut k = 0;
        loop {
            match unsafe { list.pop() } {
                ReadySlot::Ready((i, _w)) => {
                    if k < MAXC {
                        s.q[k] = QEntry { slot: i, inflight: false };
                    }
                    k += 1;
                }
                _ => break,
            }
        }
        s.qlen = k;
        s.registered = false;
        if s.cap > 0 {
            let before = task_wakes();
            unsafe { list.push(0) };
            match unsafe { list.pop() } {
                ReadySlot::Ready((_, w)) => {
                    w.wake_by_ref();
                    s.registered = task_wakes() > before;
                    let _ = unsafe { list.pop() };
                }
                _ => unreachable!(),
            }
        }
    }
}


// ------------------------------------------------------- FuturesUnorderedBounded

/// Build a `FuturesUnorderedBounded` with arbitrary representation state.
/// `slot(i)`: `Ok(f)` occupied / `Err(n)` NextFree(n); queue entries in FIFO
/// order; `registered`: the task waker of "the last poll", if it is still armed.
pub fn fub_from_parts<F>(
    cap: usize,
    slot: impl FnMut(usize) -> Result<F, usize>,
    free_head: usize,
    qlen: usize,
    q: &dyn Fn(usize) -> QEntry,
    registered: Option<&Waker>,
) -> FuturesUnorderedBounded<F> {
    let tasks = crate::slot_map::PinSlotMap::verif_from_parts(cap, slot, free_head);
    let mut shared = list_impl::build(cap, qlen, q);
    if let Some(w) = registered {
        let saved = unsafe { SCHED.take() };
        shared.register(w);
        unsafe { SCHED = saved };
    }
    FuturesUnorderedBounded { tasks, shared }
}

/// Read the representation state. On the model this is a pure read; on the
/// real list it drains the ready queue and probes the registration by a wake
/// on slot 0 (`task_wakes` = harness counter of invocations of `probe`).
/// `registered` = "a wake would now invoke `probe`".
pub fn fub_snapshot<F>(
    f: &mut FuturesUnorderedBounded<F>,
    cap: usize,
    probe: &Waker,
    task_wakes: &dyn Fn() -> usize,
) -> Snap {
    assert!(cap == f.tasks.capacity());
    let mut s = Snap {
        cap,
        filled: f.tasks.verif_filled(),
        free_head: f.tasks.verif_free_head(),
        next_free: [None; MAXC],
        qlen: 0,
        q: [QEntry { slot: 0, inflight: false }; MAXC],
        registered: false,
    };
    let mut i = 0;
    while i < cap && i < MAXC {
        s.next_free[i] = f.tasks.verif_next_free(i);
        i += 1;
    }
    let saved = unsafe { SCHED.take() };
    list_impl::snap_queue(&mut f.shared, &mut s, probe, task_wakes);
    unsafe { SCHED = saved };
    s
}

/// an owned clone of the waker the collection hands to the child in slot `i`
pub fn fub_child_waker<F>(f: &FuturesUnorderedBounded<F>, i: usize) -> Waker {
    (*f.shared.verif_get(i)).clone()
}

pub fn fub_peek<F>(f: &FuturesUnorderedBounded<F>, i: usize) -> Option<&F> {
    f.tasks.verif_peek(i)
}

#[cfg(futures_buffered_verif_model)]
pub fn fub_wake_begin<F>(f: &FuturesUnorderedBounded<F>, i: usize) -> bool {
    list_impl::list_wake_begin(&f.shared, i)
}
#[cfg(futures_buffered_verif_model)]
pub fn fub_wake_finish<F>(f: &FuturesUnorderedBounded<F>, i: usize) {
    list_impl::list_wake_finish(&f.shared, i)
}
#[cfg(futures_buffered_verif_model)]
pub fn fub_strong<F>(f: &FuturesUnorderedBounded<F>) -> usize {
    list_impl::list_strong(&f.shared)
}

// ------------------------------------------------------- model child wakers

#[cfg(futures_buffered_verif_model)]
pub mod model_waker {
    //! direct entry points of the model's child-waker vtable, for the Kani
    //! `Waker` stubs (explicit dispatch instead of function pointers)
    use crate::waker_list as m;
    use core::task::{RawWaker, Waker};

    pub fn is_child(w: &Waker) -> bool {
        core::ptr::eq(w.vtable(), m::child_vtable())
    }
    pub unsafe fn clone(data: *const ()) -> RawWaker {
        unsafe { m::child_clone(data) }
    }
    pub unsafe fn wake(data: *const ()) {
        unsafe { m::child_wake(data) }
    }
    pub unsafe fn wake_by_ref(data: *const ()) {
        unsafe { m::child_wake_by_ref(data) }
    }
    pub unsafe fn drop(data: *const ()) {
        unsafe { m::child_drop(data) }
    }
    /// first half of a wake performed by another thread (enqueue in flight)
    pub unsafe fn wake_begin(data: *const ()) -> bool {
        unsafe { m::child_wake_begin(data) }
    }
    /// second half: link visible, task notified
    pub unsafe fn wake_finish(data: *const ()) {
        unsafe { m::child_wake_finish(data) }
    }
}
