//! `futures_buffered::verif` — hook API for the /verif harness crate.
//! Compiled only with `--cfg futures_buffered_verif`; with
//! `--cfg futures_buffered_verif_model` the `waker_list` module is the
//! sequential reference model (/verif/hooks/waker_model.rs).
#![allow(dead_code, static_mut_refs, private_interfaces, clippy::all)]

use crate::waker_list::WakerList;
use crate::FuturesUnorderedBounded;
use core::task::Waker;

pub const MAXC: usize = 8;

// ---------------------------------------------------------------- environment

static mut SCHED: Option<fn(u8)> = None;
static mut ALLOCS: usize = 0;
static mut FREES: usize = 0;
static mut LAST_BLOCK: usize = 0;

/// Install the callback run at every `WakerList` operation boundary.
pub fn set_sched(f: Option<fn(u8)>) {
    unsafe { SCHED = f }
}

#[inline]
pub(crate) fn sched_point(k: u8) {
    if let Some(f) = unsafe { SCHED } {
        f(k)
    }
}

/// runs `sched_point(k)` when dropped (operation exit of the real list)
pub(crate) struct SchedGuard(pub(crate) u8);
impl Drop for SchedGuard {
    fn drop(&mut self) {
        sched_point(self.0)
    }
}

pub(crate) fn probe_alloc(p: usize) {
    unsafe {
        ALLOCS += 1;
        LAST_BLOCK = p;
    }
}
pub(crate) fn probe_release(_p: usize) {
    unsafe { FREES += 1 }
}
/// (blocks allocated, blocks released) by `WakerList`
pub fn probe_counts() -> (usize, usize) {
    unsafe { (ALLOCS, FREES) }
}
pub fn probe_reset() {
    unsafe {
        ALLOCS = 0;
        FREES = 0;
    }
}

// ---------------------------------------------------------------- queue state

#[derive(Clone, Copy, PartialEq, Eq, Debug)]
pub struct QEntry {
    pub slot: usize,
    pub inflight: bool,
}

/// Representation state of one `FuturesUnorderedBounded`
#[derive(Clone, Copy, Debug)]
pub struct Snap {
    pub cap: usize,
    pub filled: usize,
    pub free_head: usize,
    /// `None` occupied, `Some(n)` NextFree(n)
    pub next_free: [Option<usize>; MAXC],
    pub qlen: usize,
    pub q: [QEntry; MAXC],
    pub registered: bool,
}

impl Snap {
    pub fn occupied(&self, i: usize) -> bool {
        i < self.cap && self.next_free[i].is_none()
    }
    pub fn queued(&self, i: usize) -> bool {
        self.qpos(i).is_some()
    }
    pub fn qpos(&self, i: usize) -> Option<usize> {
        let mut r = None;
        let mut k = 0;
        while k < self.cap && k < MAXC {
            if k < self.qlen && self.q[k].slot == i && r.is_none() {
                r = Some(k);
            }
            k += 1;
        }
        r
    }
}

#[cfg(futures_buffered_verif_model)]
mod list_impl {
    use super::*;

    pub(super) fn build(
        cap: usize,
        qlen: usize,
        q: &[QEntry],
        stored: &Waker,
        armed: bool,
    ) -> WakerList {
        let mut list = WakerList::new(cap);
        // the task waker of "the last poll" is stored unconditionally (so its
        // vtable stays a constant for symex); it may have been consumed by a notify
        list.register(stored);
        list.st().registered = armed;
        // concrete loop bound (cap); qlen <= cap is part of the invariant
        for k in 0..cap {
            if k < qlen {
                let e = q[k];
                if e.inflight {
                    list.st().wake_begin(e.slot);
                } else {
                    unsafe { list.push(e.slot) };
                }
            }
        }
        list
    }

    pub(super) fn snap_queue(
        list: &mut WakerList,
        s: &mut Snap,
        probe: &Waker,
        _task_wakes: &dyn Fn() -> usize,
    ) {
        let inner = list.st();
        let mut k = 0;
        // concrete loop bound
        while k < s.cap && k < MAXC {
            if k < inner.qlen {
                s.q[k] = QEntry {
                    slot: inner.q_at(k),
                    inflight: inner.inflight_at(k),
                };
            }
            k += 1;
        }
        s.qlen = inner.qlen;
        s.registered = inner.registered
            && match &inner.task {
                Some(t) => t.will_wake(probe),
                None => false,
            };
    }

    pub fn list_strong(list: &WakerList) -> usize {
        list.st().strong
    }
    pub fn list_wake_begin(list: &WakerList, i: usize) -> bool {
        list.st().wake_begin(i)
    }
    pub fn list_wake_finish(list: &WakerList, i: usize) {
        list.st().wake_finish(i)
    }
    pub fn list_inflight(list: &WakerList, i: usize) -> bool {
        list.st().slot_inflight(i)
    }
    pub fn list_flag(list: &WakerList, i: usize) -> bool {
        list.st().flag(i)
    }
}

#[cfg(not(futures_buffered_verif_model))]
mod list_impl {
    use super::*;
    use crate::waker_list::ReadySlot;

    pub(super) fn build(
        cap: usize,
        qlen: usize,
        q: &[QEntry],
        stored: &Waker,
        armed: bool,
    ) -> WakerList {
        let mut list = WakerList::new(cap);
        list.register(stored);
        if !armed && cap > 0 {
            // consume the registration by a notify (wakes `stored` once; the
            // harness reads its counters only after the build)
            unsafe { list.push(0) };
            let _ = unsafe { list.pop() };
            list.verif_get(0).wake_by_ref();
            let _ = unsafe { list.pop() };
        }
        for k in 0..cap {
            if k < qlen {
                let e = q[k];
                assert!(!e.inflight, "in-flight enqueue cannot be built on the real list");
                unsafe { list.push(e.slot) };
            }
        }
        list
    }

    /// destructive on the real list: drains the queue, probes the registration
    pub(super) fn snap_queue(
        list: &mut WakerList,
        s: &mut Snap,
        _probe: &Waker,
        task_wakes: &dyn Fn() -> usize,
    ) {
        let mut k = 0;
        loop {
            match unsafe { list.pop() } {
                ReadySlot::Ready((i, _w)) => {
                    if k < MAXC {
                        s.q[k] = QEntry { slot: i, inflight: false };
                    }
                    k += 1;
                }
                _ => break,
            }
        }
        s.qlen = k;
        s.registered = false;
        if s.cap > 0 {
            let before = task_wakes();
            unsafe { list.push(0) };
            match unsafe { list.pop() } {
                ReadySlot::Ready((_, w)) => {
                    w.wake_by_ref();
                    s.registered = task_wakes() > before;
                    let _ = unsafe { list.pop() };
                }
                _ => unreachable!(),
            }
        }
    }
}


// ------------------------------------------------------- FuturesUnorderedBounded

/// Build a `FuturesUnorderedBounded` with arbitrary representation state.
/// `slot(i)`: `Ok(f)` occupied / `Err(n)` NextFree(n); queue entries in FIFO
/// order; `stored`: the task waker of "the last poll"; `armed`: its registration
/// has not been consumed by a notify yet.
pub fn fub_from_parts<F>(
    cap: usize,
    slot: impl FnMut(usize) -> Result<F, usize>,
    free_head: usize,
    qlen: usize,
    q: &[QEntry],
    stored: &Waker,
    armed: bool,
) -> FuturesUnorderedBounded<F> {
    let tasks = crate::slot_map::PinSlotMap::verif_from_parts(cap, slot, free_head);
    let saved = unsafe { SCHED.take() };
    let shared = list_impl::build(cap, qlen, q, stored, armed);
    unsafe { SCHED = saved };
    FuturesUnorderedBounded { tasks, shared }
}

/// Read the representation state. On the model this is a pure read; on the
/// real list it drains the ready queue and probes the registration by a wake
/// on slot 0 (`task_wakes` = harness counter of invocations of `probe`).
/// `registered` = "a wake would now invoke `probe`".
pub fn fub_snapshot<F>(
    f: &mut FuturesUnorderedBounded<F>,
    cap: usize,
    probe: &Waker,
    task_wakes: &dyn Fn() -> usize,
) -> Snap {
    assert!(cap == f.tasks.capacity());
    let mut s = Snap {
        cap,
        filled: f.tasks.verif_filled(),
        free_head: f.tasks.verif_free_head(),
        next_free: [None; MAXC],
        qlen: 0,
        q: [QEntry { slot: 0, inflight: false }; MAXC],
        registered: false,
    };
    let mut i = 0;
    while i < cap && i < MAXC {
        s.next_free[i] = f.tasks.verif_next_free(i);
        i += 1;
    }
    let saved = unsafe { SCHED.take() };
    list_impl::snap_queue(&mut f.shared, &mut s, probe, task_wakes);
    unsafe { SCHED = saved };
    s
}

/// an owned clone of the waker the collection hands to the child in slot `i`
pub fn fub_child_waker<F>(f: &FuturesUnorderedBounded<F>, i: usize) -> Waker {
    (*f.shared.verif_get(i)).clone()
}

pub fn fub_peek<F>(f: &FuturesUnorderedBounded<F>, i: usize) -> Option<&F> {
    f.tasks.verif_peek(i)
}

#[cfg(futures_buffered_verif_model)]
pub fn fub_wake_begin<F>(f: &FuturesUnorderedBounded<F>, i: usize) -> bool {
    list_impl::list_wake_begin(&f.shared, i)
}
#[cfg(futures_buffered_verif_model)]
pub fn fub_wake_finish<F>(f: &FuturesUnorderedBounded<F>, i: usize) {
    list_impl::list_wake_finish(&f.shared, i)
}
#[cfg(futures_buffered_verif_model)]
pub fn fub_strong<F>(f: &FuturesUnorderedBounded<F>) -> usize {
    list_impl::list_strong(&f.shared)
}

// ------------------------------------------------------- model child wakers

#[cfg(futures_buffered_verif_model)]
pub mod model_waker {
    //! direct entry points of the model's child wakers, for the Kani `Waker`
    //! stubs (explicit dispatch instead of function pointers). The list is
    //! identified by the waker's vtable address (concrete), the slot by the
    //! data pointer.
    use crate::waker_list as m;
    use core::task::{RawWaker, Waker};

    /// list id if `w` is a child waker of the model
    pub fn list_of(w: &Waker) -> Option<usize> {
        m::list_of(w)
    }
    pub fn clone(l: usize, data: *const ()) -> RawWaker {
        m::child_clone(l, data)
    }
    pub fn wake(l: usize, data: *const ()) {
        m::child_wake(l, data)
    }
    pub fn wake_by_ref(l: usize, data: *const ()) {
        m::child_wake_by_ref(l, data)
    }
    pub fn drop(l: usize, data: *const ()) {
        m::child_drop(l, data)
    }
    /// first half of a wake performed by another thread (enqueue in flight)
    pub fn wake_begin(w: &Waker) -> bool {
        match m::list_of(w) {
            Some(l) => m::child_wake_begin(l, w.data()),
            None => false,
        }
    }
    /// second half: link visible, task notified
    pub fn wake_finish(w: &Waker) {
        if let Some(l) = m::list_of(w) {
            m::child_wake_finish(l, w.data())
        }
    }
    pub fn reset() {
        m::model_reset()
    }
    /// ring-buffer FIFO for harnesses with more than 8 queued slots
    pub fn set_big_queue(on: bool) {
        m::set_big_queue(on)
    }
    /// enable the modelling of enqueues in flight (two-phase wakes)
    pub fn set_two_phase(on: bool) {
        m::set_two_phase(on)
    }
}

// ------------------------------------------------------- ordered collections

use crate::futures_ordered_bounded::OrderWrapper;
use core::future::Future;

/// Build a `FuturesOrderedBounded` with arbitrary representation state:
/// `slot(i)`: `Ok((future, position))` / `Err(next_free)`; parked outputs are
/// added afterwards with `verif_park`.
pub fn fob_from_parts<F: Future>(
    cap: usize,
    mut slot: impl FnMut(usize) -> Result<(F, usize), usize>,
    free_head: usize,
    qlen: usize,
    q: &[QEntry],
    stored: &Waker,
    armed: bool,
    heap_cap: usize,
    next_in: usize,
    next_out: usize,
) -> crate::FuturesOrderedBounded<F> {
    let inner = fub_from_parts(
        cap,
        |i| slot(i).map(|(f, index)| OrderWrapper { data: f, index }),
        free_head,
        qlen,
        q,
        stored,
        armed,
    );
    crate::FuturesOrderedBounded::verif_from_parts(inner, heap_cap, next_in, next_out)
}

pub fn fob_snapshot<F: Future>(
    f: &mut crate::FuturesOrderedBounded<F>,
    cap: usize,
    probe: &Waker,
    task_wakes: &dyn Fn() -> usize,
) -> Snap {
    fub_snapshot(&mut f.in_progress_queue, cap, probe, task_wakes)
}

/// (future, position) held in slot i
pub fn fob_peek<F: Future>(f: &crate::FuturesOrderedBounded<F>, i: usize) -> Option<(&F, usize)> {
    f.in_progress_queue.tasks.verif_peek(i).map(|w| (&w.data, w.index))
}

pub fn fob_child_waker<F: Future>(f: &crate::FuturesOrderedBounded<F>, i: usize) -> Waker {
    fub_child_waker(&f.in_progress_queue, i)
}

/// `FuturesOrdered` over explicitly built groups
pub fn fo_from_parts<F: Future>(
    n_groups: usize,
    mut group: impl FnMut(usize) -> FuturesUnorderedBounded<OrderWrapperPub<F>>,
    rem: usize,
    poll_next: usize,
    next_in: usize,
    next_out: usize,
) -> crate::FuturesOrdered<F> {
    let mut groups = alloc::vec::Vec::with_capacity(n_groups);
    for k in 0..n_groups {
        groups.push(group(k));
    }
    let inner = crate::FuturesUnordered::verif_from_parts(groups, rem, poll_next);
    crate::FuturesOrdered::verif_from_parts(inner, next_in, next_out)
}

/// public alias so that harnesses can name the wrapped future type
pub type OrderWrapperPub<F> = OrderWrapper<F>;

pub fn order_wrap<F>(f: F, index: usize) -> OrderWrapperPub<F> {
    OrderWrapper { data: f, index }
}

pub fn fo_groups<F: Future>(
    f: &mut crate::FuturesOrdered<F>,
) -> (&mut alloc::vec::Vec<FuturesUnorderedBounded<OrderWrapperPub<F>>>, usize, usize) {
    f.verif_inner().verif_parts()
}

pub fn order_peek<F>(w: &OrderWrapperPub<F>) -> (&F, usize) {
    (&w.data, w.index)
}

/// `ForEachConcurrent` is not nameable from outside the crate
pub use crate::buffered::ForEachConcurrent;

// ------------------------------------------------------- the list by itself (Layer W)

/// The waker list of the current build (real `waker_list.rs`, or the reference
/// model) behind a safe, public API, for the shape harnesses of C03.
pub struct RawList {
    list: WakerList,
    cap: usize,
}

impl RawList {
    pub fn new(cap: usize) -> Self {
        RawList { list: WakerList::new(cap), cap }
    }
    pub fn push(&self, i: usize) {
        assert!(i < self.cap);
        unsafe { self.list.push(i) }
    }
    pub fn register(&mut self, w: &Waker) {
        self.list.register(w)
    }
    /// `Some((slot, borrowed waker))`, `None` when empty (or inconsistent)
    pub fn pop(&mut self) -> Option<(usize, core::mem::ManuallyDrop<Waker>)> {
        match unsafe { self.list.pop() } {
            crate::waker_list::ReadySlot::Ready(x) => Some(x),
            _ => None,
        }
    }
    /// the (borrowed, not owning) waker of slot i
    pub fn waker(&self, i: usize) -> core::mem::ManuallyDrop<Waker> {
        assert!(i < self.cap);
        self.list.verif_get(i)
    }
}

/// `FuturesOrdered` with ONE inner group of capacity `cap` in an arbitrary
/// representation state (`slot(i)`: `Ok((future, position))` / `Err(next_free)`)
pub fn fo_from_parts_1<F: Future>(
    cap: usize,
    mut slot: impl FnMut(usize) -> Result<(F, usize), usize>,
    free_head: usize,
    qlen: usize,
    q: &[QEntry],
    stored: &Waker,
    armed: bool,
    next_in: usize,
    next_out: usize,
) -> crate::FuturesOrdered<F> {
    let inner = fub_from_parts(
        cap,
        |i| slot(i).map(|(f, index)| OrderWrapper { data: f, index }),
        free_head,
        qlen,
        q,
        stored,
        armed,
    );
    let rem = inner.len();
    let mut groups = alloc::vec::Vec::with_capacity(2);
    groups.push(inner);
    let fu = crate::FuturesUnordered::verif_from_parts(groups, rem, 0);
    crate::FuturesOrdered::verif_from_parts(fu, next_in, next_out)
}

// ------------------------------------------------------- the slot map by itself (Layer S)

/// `PinSlotMap<u8>` behind a public API
pub struct SlotMapU8(crate::slot_map::PinSlotMap<u8>);

impl SlotMapU8 {
    pub fn from_parts(cap: usize, slot: impl FnMut(usize) -> Result<u8, usize>, free_head: usize) -> Self {
        SlotMapU8(crate::slot_map::PinSlotMap::verif_from_parts(cap, slot, free_head))
    }
    pub fn insert(&mut self, x: u8) -> Result<usize, u8> {
        self.0.insert_with(x, |x| x)
    }
    pub fn remove(&mut self, key: usize) {
        self.0.remove(key)
    }
    pub fn get(&mut self, key: usize) -> Option<u8> {
        self.0.get(key).map(|p| *p)
    }
    pub fn len(&self) -> usize {
        self.0.len()
    }
    pub fn is_empty(&self) -> bool {
        self.0.is_empty()
    }
    pub fn capacity(&self) -> usize {
        self.0.capacity()
    }
    pub fn next_free(&self, i: usize) -> Option<usize> {
        self.0.verif_next_free(i)
    }
    pub fn free_head(&self) -> usize {
        self.0.verif_free_head()
    }
}

/// layout arithmetic of the real waker list for capacity `cap`:
/// (block size, block align, offset of slot 0, slot size, slot align, header size)
#[cfg(not(futures_buffered_verif_model))]
pub fn real_layout(cap: usize) -> (usize, usize, usize, usize, usize, usize) {
    WakerList::verif_layout(cap)
}
