//! verif hook (child module of `try_buffered`)
use super::*;

impl<St> TryBufferedOrdered<St>
where
    St: TryStream,
    St::Ok: TryFuture,
{
    pub fn verif_from_parts(stream: Option<St>, q: FuturesOrderedBounded<St::Ok>) -> Self {
        Self { stream, in_progress_queue: q }
    }
    pub fn verif_stream_present(&self) -> bool {
        self.stream.is_some()
    }
    pub fn verif_queue(&mut self) -> &mut FuturesOrderedBounded<St::Ok> {
        &mut self.in_progress_queue
    }
}

impl<St: TryStream> TryBufferUnordered<St> {
    pub fn verif_from_parts(stream: Option<St>, q: FuturesUnorderedBounded<St::Ok>) -> Self {
        Self { stream, in_progress_queue: q }
    }
    pub fn verif_stream_present(&self) -> bool {
        self.stream.is_some()
    }
    pub fn verif_queue(&mut self) -> &mut FuturesUnorderedBounded<St::Ok> {
        &mut self.in_progress_queue
    }
}
