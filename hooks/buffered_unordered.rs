//! verif hook (child module of `buffered::unordered`)
use super::*;

impl<St> BufferUnordered<St>
where
    St: Stream,
    St::Item: Future,
{
    pub fn verif_from_parts(stream: Option<St>, q: FuturesUnorderedBounded<St::Item>) -> Self {
        Self { stream, in_progress_queue: q }
    }
    pub fn verif_stream_present(&self) -> bool {
        self.stream.is_some()
    }
    pub fn verif_queue(&mut self) -> &mut FuturesUnorderedBounded<St::Item> {
        &mut self.in_progress_queue
    }
}
