//! verif hook (child module of `futures_ordered`)
use super::*;

impl<T: Future> FuturesOrdered<T> {
    pub(crate) fn verif_from_parts(
        inner: FuturesUnordered<OrderWrapper<T>>,
        next_in: usize,
        next_out: usize,
    ) -> Self {
        Self {
            in_progress_queue: inner,
            // room for every element of a harness: heap growth (realloc of a symbolic
            // size) is not the subject and alone exceeds 30 GB in CBMC
            queued_outputs: BinaryHeap::with_capacity(8),
            next_incoming_index: Wrapping(next_in),
            next_outgoing_index: Wrapping(next_out),
        }
    }
    pub fn verif_park(&mut self, index: usize, out: T::Output) {
        self.queued_outputs.push(OrderWrapper { data: out, index });
    }
    pub fn verif_counters(&self) -> (usize, usize) {
        (self.next_incoming_index.0, self.next_outgoing_index.0)
    }
    pub fn verif_heap_len(&self) -> usize {
        self.queued_outputs.len()
    }
    pub fn verif_heap_at(&self, k: usize) -> Option<(usize, &T::Output)> {
        self.queued_outputs.as_slice().get(k).map(|w| (w.index, &w.data))
    }
    pub(crate) fn verif_inner(&mut self) -> &mut FuturesUnordered<OrderWrapper<T>> {
        &mut self.in_progress_queue
    }
}
