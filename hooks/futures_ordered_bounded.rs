//! verif hook (child module of `futures_ordered_bounded`)
use super::*;

impl<T: Future> FuturesOrderedBounded<T> {
    pub(crate) fn verif_from_parts(
        inner: FuturesUnorderedBounded<OrderWrapper<T>>,
        heap_cap: usize,
        next_in: usize,
        next_out: usize,
    ) -> Self {
        Self {
            in_progress_queue: inner,
            queued_outputs: BinaryHeap::with_capacity(heap_cap),
            next_incoming_index: Wrapping(next_in),
            next_outgoing_index: Wrapping(next_out),
        }
    }
    /// park an out-of-turn output
    pub fn verif_park(&mut self, index: usize, out: T::Output) {
        self.queued_outputs.push(OrderWrapper { data: out, index });
    }
    /// (next_incoming_index, next_outgoing_index)
    pub fn verif_counters(&self) -> (usize, usize) {
        (self.next_incoming_index.0, self.next_outgoing_index.0)
    }
    pub fn verif_heap_len(&self) -> usize {
        self.queued_outputs.len()
    }
    pub fn verif_heap_cap(&self) -> usize {
        self.queued_outputs.capacity()
    }
    /// position of the k-th parked output (heap order) and a reference to it
    pub fn verif_heap_at(&self, k: usize) -> Option<(usize, &T::Output)> {
        self.queued_outputs.as_slice().get(k).map(|w| (w.index, &w.data))
    }
}
