//! verif hook (child module of `futures_ordered_bounded`)
use super::*;

impl<T: Future> FuturesOrderedBounded<T> {
    pub(crate) fn verif_from_parts(
        inner: FuturesUnorderedBounded<OrderWrapper<T>>,
        heap_cap: usize,
        next_in: usize,
        next_out: usize,
    ) -> Self {
        Self {
            in_progress_queue: inner,
            queued_outputs: BinaryHeap::with_capacity(heap_cap),
            next_incoming_index: Wrapping(next_in),
            next_outgoing_index: Wrapping(next_out),
        }
    }
    /// park an out-of-turn output
    pub fn verif_park(&mut self, index: usize, out: T::Output) {
        self.queued_outputs.push(OrderWrapper { data: out, index });
    }
    /// (next_incoming_index, next_outgoing_index)
    pub fn verif_counters(&self) -> (usize, usize) {
        (self.next_incoming_index.0, self.next_outgoing_index.0)
    }
    pub fn verif_heap_len(&self) -> usize {
        self.queued_outputs.len()
    }
    pub fn verif_heap_cap(&self) -> usize {
        self.queued_outputs.capacity()
    }
    /// position of the k-th parked output (heap order) and a reference to it
    pub fn verif_heap_at(&self, k: usize) -> Option<(usize, &T::Output)> {
        self.queued_outputs.as_slice().get(k).map(|w| (w.index, &w.data))
    }
}

impl<T: Future> FuturesOrderedBounded<T> {
    /// diagnostic: the heap hand-over of the re-basing block, observable
    pub fn verif_rebase_probe(&mut self) -> (usize, usize) {
        let taken = core::mem::take(&mut self.queued_outputs);
        let cap_placeholder = self.queued_outputs.capacity();
        let v = taken.into_vec();
        let c2 = v.capacity();
        self.queued_outputs = v.into();
        (cap_placeholder, c2)
    }
}

impl<T: Future> FuturesOrderedBounded<T> {
    pub fn verif_probe_caps() -> (usize, usize, usize, usize) {
        let a: BinaryHeap<OrderWrapper<T::Output>> = Default::default();
        let b = BinaryHeap::<OrderWrapper<T::Output>>::new();
        let c = alloc::vec::Vec::<OrderWrapper<T::Output>>::new();
        let mut d = BinaryHeap::<OrderWrapper<T::Output>>::with_capacity(1);
        let e = core::mem::take(&mut d);
        core::mem::forget(e);
        (a.capacity(), b.capacity(), c.capacity(), d.capacity())
    }
}

impl<T: Future> FuturesOrderedBounded<T> {
    pub fn verif_probe5(&mut self) -> [usize; 6] {
        let c0 = self.queued_outputs.capacity();
        let fresh = BinaryHeap::<OrderWrapper<T::Output>>::new();
        let cf = fresh.capacity();
        let taken = core::mem::replace(&mut self.queued_outputs, fresh);
        let c1 = self.queued_outputs.capacity();
        let ct = taken.capacity();
        let l1 = self.queued_outputs.len();
        core::mem::forget(taken);
        let t2 = core::mem::take(&mut self.queued_outputs);
        let c2 = self.queued_outputs.capacity();
        core::mem::forget(t2);
        [c0, cf, c1, ct, l1, c2]
    }
}
