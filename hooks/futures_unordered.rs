//! verif hook (child module of `futures_unordered`): arbitrary representation state
use super::*;

impl<F> FuturesUnordered<F> {
    pub fn verif_from_parts(groups: Vec<FuturesUnorderedBounded<F>>, rem: usize, poll_next: usize) -> Self {
        Self { rem, groups, poll_next }
    }
    /// (groups, rem, poll_next)
    pub fn verif_parts(&mut self) -> (&mut Vec<FuturesUnorderedBounded<F>>, usize, usize) {
        (&mut self.groups, self.rem, self.poll_next)
    }
}
