//! verif hook (child module of `buffered::ordered`)
use super::*;

impl<St> BufferedOrdered<St>
where
    St: Stream,
    St::Item: Future,
{
    pub fn verif_from_parts(stream: Option<St>, q: FuturesOrderedBounded<St::Item>) -> Self {
        Self { stream, in_progress_queue: q }
    }
    pub fn verif_stream_present(&self) -> bool {
        self.stream.is_some()
    }
    pub fn verif_queue(&mut self) -> &mut FuturesOrderedBounded<St::Item> {
        &mut self.in_progress_queue
    }
}
