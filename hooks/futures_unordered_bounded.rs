//! verif hook (child module): see /verif/hooks/verif.rs
