//! verif hook (child module of `try_join_all`)
use super::*;

impl<F: TryFuture> TryJoinAll<F> {
    pub fn verif_from_parts(
        queue: FuturesUnorderedBounded<F>,
        n: usize,
        mut written: impl FnMut(usize) -> Option<F::Ok>,
    ) -> Self {
        let mut output = Vec::with_capacity(n);
        output.resize_with(n, MaybeUninit::uninit);
        let mut output = output.into_boxed_slice();
        for i in 0..n {
            if let Some(x) = written(i) {
                output[i].write(x);
            }
        }
        Self { queue, output }
    }
    pub fn verif_queue(&mut self) -> &mut FuturesUnorderedBounded<F> {
        &mut self.queue
    }
    pub fn verif_output_len(&self) -> usize {
        self.output.len()
    }
}
