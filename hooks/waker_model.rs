//! Sequential reference model of `/repo/src/waker_list.rs`.
//!
//! Compiled *instead of* the real `waker_list` module when the crate is built
//! with `--cfg futures_buffered_verif --cfg futures_buffered_verif_model`
//! (Layer U of /verif/DESIGN.md).  It offers exactly the API the upper layers
//! use (`WakerList::{new,push,register,pop}`, `ReadySlot`, `Drop`) and the
//! operation-granular behaviour of the real list:
//!
//! * per-slot `queued` flag (= `wake_lock`), FIFO ready queue of slot indices;
//! * `push(i)` / child `wake_by_ref`: enqueue only on the false->true transition
//!   of the flag; the child wake additionally `notify`s on that transition;
//! * `notify`: if a task waker is registered: un-register, `wake_by_ref` it
//!   (sequential behaviour of `DiatomicWaker`);
//! * `register(w)`: keep the stored waker if `will_wake(w)`, else store a clone;
//! * `pop`: dequeue, *then* clear the flag; two-phase enqueues of other
//!   producers (`wake_begin`/`wake_finish`) reproduce cordyceps' `Empty` /
//!   `Inconsistent` answers (tail==stub with unlinked successor -> Empty,
//!   linked front whose successor is unlinked -> Inconsistent);
//! * reference count shared by the list handle and every cloned child waker.
//!
//! No `kani` calls in here; environment events enter through
//! `crate::verif::sched_point`.
#![allow(dead_code)]

use alloc::boxed::Box;
use core::cell::{Cell, UnsafeCell};
use core::mem::ManuallyDrop;
use core::task::{RawWaker, RawWakerVTable, Waker};

/// "no slot"
pub(crate) const NIL: usize = usize::MAX;
/// queue entries the packed FIFO can hold (model limit, asserted)
pub(crate) const QMAX: usize = 8;

/// One per slot; immutable after construction. Its address is the data
/// pointer of the slot's waker (as in the real list).
pub(crate) struct Item {
    pub(crate) index: usize,
    owner: Cell<*const Inner>,
}

/// All mutable state is scalar (bit masks / a packed FIFO) so that symbolic
/// slot indices cost shifts, not array updates, in the solver.
pub(crate) struct Inner {
    pub(crate) strong: Cell<usize>,
    pub(crate) task: UnsafeCell<Option<Waker>>,
    pub(crate) registered: Cell<bool>,
    /// bit i: the `wake_lock` flag of slot i (queued, or its enqueue in flight)
    pub(crate) flags: Cell<u64>,
    /// FIFO of slot indices, 8 bits each, oldest in the low byte
    pub(crate) q: Cell<u64>,
    pub(crate) qlen: Cell<usize>,
    /// bit k: the k-th queue entry is in flight (enqueue begun by another
    /// producer, predecessor link not yet written)
    pub(crate) inflight: Cell<u8>,
    pub(crate) items: Box<[Item]>,
    pub(crate) cap: usize,
}

pub(crate) struct WakerList {
    pub(crate) ptr: *const Inner,
}

unsafe impl Send for WakerList {}
unsafe impl Sync for WakerList {}

pub(crate) enum ReadySlot<T> {
    Ready(T),
    Inconsistent,
    None,
}

impl Inner {
    pub(crate) fn flag(&self, i: usize) -> bool {
        (self.flags.get() >> i) & 1 == 1
    }
    pub(crate) fn q_at(&self, k: usize) -> usize {
        ((self.q.get() >> (8 * k)) & 0xff) as usize
    }
    pub(crate) fn inflight_at(&self, k: usize) -> bool {
        (self.inflight.get() >> k) & 1 == 1
    }
    /// queue position of slot i (QMAX if absent)
    pub(crate) fn pos_of(&self, i: usize) -> usize {
        let mut r = QMAX;
        let mut k = 0;
        while k < QMAX {
            if k < self.qlen.get() && self.q_at(k) == i && r == QMAX {
                r = k;
            }
            k += 1;
        }
        r
    }
    pub(crate) fn slot_inflight(&self, i: usize) -> bool {
        if self.inflight.get() == 0 {
            return false;
        }
        let p = self.pos_of(i);
        p < QMAX && self.inflight_at(p)
    }

    fn enqueue(&self, i: usize, inflight: bool) {
        let n = self.qlen.get();
        assert!(n < QMAX && i < 64, "waker_model: queue/slot limit of the model exceeded");
        self.q.set(self.q.get() | ((i as u64) << (8 * n)));
        if inflight {
            self.inflight.set(self.inflight.get() | (1u8 << n));
        }
        self.qlen.set(n + 1);
    }

    fn notify(&self) {
        if self.registered.get() {
            self.registered.set(false);
            // SAFETY: single-threaded model
            if let Some(w) = unsafe { &*self.task.get() } {
                w.wake_by_ref();
            }
        }
    }

    /// first half of a child wake performed by "another thread":
    /// flag set + enqueue started. Returns true if this call began an enqueue.
    pub(crate) fn wake_begin(&self, i: usize) -> bool {
        if self.slot_inflight(i) {
            // the slot lock is held by the producer in flight: we would spin
            // until it finishes, then see the flag set.
            self.wake_finish(i);
            return false;
        }
        if self.flag(i) {
            return false;
        }
        self.flags.set(self.flags.get() | (1u64 << i));
        self.enqueue(i, true);
        true
    }

    /// second half: link becomes visible, task notified, slot lock released.
    pub(crate) fn wake_finish(&self, i: usize) {
        if self.inflight.get() == 0 {
            return;
        }
        let p = self.pos_of(i);
        if p < QMAX && self.inflight_at(p) {
            self.inflight.set(self.inflight.get() & !(1u8 << p));
            self.notify();
        }
    }

    pub(crate) fn wake_by_ref(&self, i: usize) {
        if self.inflight.get() == 0 {
            // fast path (nothing in flight): flag, enqueue, notify
            if !self.flag(i) {
                self.flags.set(self.flags.get() | (1u64 << i));
                self.enqueue(i, false);
                self.notify();
            }
            return;
        }
        if self.wake_begin(i) {
            self.wake_finish(i);
        }
    }

    fn inc_strong(&self) {
        self.strong.set(self.strong.get() + 1);
    }

    /// returns true if this was the last owner
    fn dec_strong(&self) -> bool {
        let s = self.strong.get();
        self.strong.set(s - 1);
        s == 1
    }
}

unsafe fn release(p: *const Inner) {
    crate::verif::probe_release(p as usize);
    drop(unsafe { Box::from_raw(p as *mut Inner) });
}

static VTABLE: RawWakerVTable =
    RawWakerVTable::new(child_clone, child_wake, child_wake_by_ref, child_drop);

pub(crate) fn child_vtable() -> &'static RawWakerVTable {
    &VTABLE
}

unsafe fn owner<'a>(data: *const ()) -> (&'a Inner, usize) {
    let it = unsafe { &*data.cast::<Item>() };
    (unsafe { &*it.owner.get() }, it.index)
}

pub(crate) unsafe fn child_clone(data: *const ()) -> RawWaker {
    let (inner, _) = unsafe { owner(data) };
    inner.inc_strong();
    RawWaker::new(data, &VTABLE)
}

pub(crate) unsafe fn child_wake(data: *const ()) {
    unsafe {
        child_wake_by_ref(data);
        child_drop(data);
    }
}

pub(crate) unsafe fn child_wake_by_ref(data: *const ()) {
    let (inner, i) = unsafe { owner(data) };
    inner.wake_by_ref(i);
}

pub(crate) unsafe fn child_wake_begin(data: *const ()) -> bool {
    let (inner, i) = unsafe { owner(data) };
    inner.wake_begin(i)
}

pub(crate) unsafe fn child_wake_finish(data: *const ()) {
    let (inner, i) = unsafe { owner(data) };
    inner.wake_finish(i)
}

pub(crate) unsafe fn child_drop(data: *const ()) {
    let (inner, _) = unsafe { owner(data) };
    if inner.dec_strong() {
        unsafe { release(inner as *const Inner) };
    }
}

impl WakerList {
    pub(crate) fn new(cap: usize) -> Self {
        let mut items = alloc::vec::Vec::with_capacity(cap);
        for i in 0..cap {
            items.push(Item {
                index: i,
                owner: Cell::new(core::ptr::null()),
            });
        }
        let inner = Box::new(Inner {
            strong: Cell::new(1),
            task: UnsafeCell::new(None),
            registered: Cell::new(false),
            flags: Cell::new(0),
            q: Cell::new(0),
            qlen: Cell::new(0),
            inflight: Cell::new(0),
            items: items.into_boxed_slice(),
            cap,
        });
        let ptr: *const Inner = Box::into_raw(inner);
        let inner = unsafe { &*ptr };
        for i in 0..cap {
            inner.items[i].owner.set(ptr);
        }
        crate::verif::probe_alloc(ptr as usize);
        Self { ptr }
    }

    pub(crate) fn inner(&self) -> &Inner {
        unsafe { &*self.ptr }
    }

    /// Safety: index must be within capacity
    pub(crate) unsafe fn push(&self, index: usize) {
        let inner = self.inner();
        if inner.slot_inflight(index) {
            // spin on the slot lock until the producer in flight is done
            inner.wake_finish(index);
        }
        if !inner.flag(index) {
            inner.flags.set(inner.flags.get() | (1u64 << index));
            inner.enqueue(index, false);
        }
    }

    pub(crate) fn register(&mut self, waker: &Waker) {
        crate::verif::sched_point(0);
        let inner = self.inner();
        // SAFETY: single-threaded model, &mut self
        let task = unsafe { &mut *inner.task.get() };
        let up_to_date = match task {
            Some(t) => t.will_wake(waker),
            None => false,
        };
        if !up_to_date {
            *task = Some(waker.clone());
        }
        inner.registered.set(true);
    }

    pub(crate) fn get(&self, index: usize) -> ManuallyDrop<Waker> {
        let it: *const Item = &self.inner().items[index];
        unsafe { ManuallyDrop::new(Waker::from_raw(RawWaker::new(it.cast(), &VTABLE))) }
    }

    pub(crate) fn verif_get(&self, index: usize) -> ManuallyDrop<Waker> {
        self.get(index)
    }

    pub(crate) unsafe fn pop(&self) -> ReadySlot<(usize, ManuallyDrop<Waker>)> {
        crate::verif::sched_point(1);
        let inner = self.inner();
        let n = inner.qlen.get();
        let fl = inner.inflight.get();
        let r = if n == 0 {
            ReadySlot::None
        } else if fl & 1 != 0 {
            // tail is the stub and stub.next is still null
            ReadySlot::None
        } else if n >= 2 && fl & 2 != 0 {
            // front is linked, its successor's link is not yet written
            ReadySlot::Inconsistent
        } else {
            let e0 = inner.q_at(0);
            inner.q.set(inner.q.get() >> 8);
            inner.inflight.set(fl >> 1);
            inner.qlen.set(n - 1);
            // flag cleared only after the slot left the queue
            inner.flags.set(inner.flags.get() & !(1u64 << e0));
            ReadySlot::Ready((e0, self.get(e0)))
        };
        crate::verif::sched_point(2);
        r
    }
}

impl Drop for WakerList {
    fn drop(&mut self) {
        if self.inner().dec_strong() {
            unsafe { release(self.ptr) };
        }
    }
}
