//! Sequential reference model of `/repo/src/waker_list.rs`.
//!
//! Compiled *instead of* the real `waker_list` module when the crate is built
//! with `--cfg futures_buffered_verif --cfg futures_buffered_verif_model`
//! (Layer U of /verif/DESIGN.md).  It offers exactly the API the upper layers
//! use (`WakerList::{new,push,register,pop}`, `ReadySlot`, `Drop`) and the
//! operation-granular behaviour of the real list:
//!
//! * per-slot `queued` flag (= `wake_lock`), FIFO ready queue of slot indices;
//! * `push(i)` / child `wake_by_ref`: enqueue only on the false->true transition
//!   of the flag; the child wake additionally `notify`s on that transition;
//! * `notify`: if a task waker is registered: un-register, `wake_by_ref` it
//!   (sequential behaviour of `DiatomicWaker`);
//! * `register(w)`: keep the stored waker if `will_wake(w)`, else store a clone;
//! * `pop`: dequeue, *then* clear the flag; two-phase enqueues of other
//!   producers (`wake_begin`/`wake_finish`) reproduce cordyceps' `Empty` /
//!   `Inconsistent` answers (tail==stub with unlinked successor -> Empty,
//!   linked front whose successor is unlinked -> Inconsistent);
//! * reference count shared by the list handle and every cloned child waker;
//!   the block is released exactly once, by the last owner.
//!
//! No `kani` calls in here; environment events enter through
//! `crate::verif::sched_point`.
#![allow(dead_code, static_mut_refs)]

use core::mem::ManuallyDrop;
use core::task::{RawWaker, RawWakerVTable, Waker};

/// "no slot"
pub(crate) const NIL: usize = usize::MAX;
/// queue entries the packed FIFO can hold (model limit, asserted)
pub(crate) const QMAX: usize = 8;
/// lists that can exist in one run (model limit, asserted)
pub(crate) const MAXL: usize = 4;
/// slots per list (model limit, asserted)
pub(crate) const MAXSLOT: usize = 64;

/// All state is scalar and lives in a static table indexed by a *concrete*
/// list id: no heap object, no symbolic offsets -- a symbolic slot index costs
/// shifts, not byte-array updates, in the solver.
pub(crate) struct St {
    /// index of this list in the static table
    pub(crate) id: usize,
    /// owners: the list handle + every cloned child waker
    pub(crate) strong: usize,
    pub(crate) live: bool,
    pub(crate) task: Option<Waker>,
    pub(crate) registered: bool,
    /// bit i: the `wake_lock` flag of slot i (queued, or its enqueue in flight)
    pub(crate) flags: u64,
    /// FIFO of slot indices, 8 bits each, oldest in the low byte
    pub(crate) q: u64,
    pub(crate) qlen: usize,
    /// bit k: the k-th queue entry is in flight (enqueue begun by another
    /// producer, predecessor link not yet written)
    pub(crate) inflight: u8,
    pub(crate) cap: usize,
}

const ST0: St = St {
    id: 0,
    strong: 0,
    live: false,
    task: None,
    registered: false,
    flags: 0,
    q: 0,
    qlen: 0,
    inflight: 0,
    cap: 0,
};
static mut LISTS: [St; MAXL] = [ST0, ST0, ST0, ST0];
static mut NEXT_ID: usize = 0;
/// two-phase (in-flight) enqueues are modelled only when a harness asks for
/// them; the flag is concrete, so symex prunes that machinery otherwise
static mut TWO_PHASE: bool = false;

pub(crate) fn set_two_phase(on: bool) {
    unsafe { TWO_PHASE = on }
}
fn two_phase() -> bool {
    unsafe { TWO_PHASE }
}
/// harnesses with more than QMAX queued slots (and fully concrete state) switch
/// the FIFO to a ring buffer; concrete flag, pruned by symex otherwise
static mut BIG_QUEUE: bool = false;
/// the ring buffers live outside `St`, so that they cost nothing when unused
static mut QX: [[u8; MAXSLOT]; MAXL] = [[0; MAXSLOT]; MAXL];
static mut QX_HEAD: [usize; MAXL] = [0; MAXL];

pub(crate) fn set_big_queue(on: bool) {
    unsafe { BIG_QUEUE = on }
}
fn big_queue() -> bool {
    unsafe { BIG_QUEUE }
}
/// `&TAGS[i]` is the data pointer of the waker of slot i (of any list; the
/// list is identified by the vtable)
static TAGS: [u8; MAXSLOT] = [0; MAXSLOT];

pub(crate) fn st(id: usize) -> &'static mut St {
    unsafe { &mut LISTS[id] }
}

pub(crate) fn model_reset() {
    unsafe {
        let mut i = 0;
        while i < MAXL {
            LISTS[i] = ST0;
            i += 1;
        }
        NEXT_ID = 0;
        TWO_PHASE = false;
        BIG_QUEUE = false;
        QX_HEAD = [0; MAXL];
    }
}

pub(crate) struct WakerList {
    pub(crate) id: usize,
}

unsafe impl Send for WakerList {}
unsafe impl Sync for WakerList {}

pub(crate) enum ReadySlot<T> {
    Ready(T),
    Inconsistent,
    None,
}

impl St {
    pub(crate) fn flag(&self, i: usize) -> bool {
        (self.flags >> i) & 1 == 1
    }
    pub(crate) fn q_at(&self, k: usize) -> usize {
        if big_queue() {
            return unsafe { QX[self.id][(QX_HEAD[self.id] + k) % MAXSLOT] } as usize;
        }
        ((self.q >> (8 * k)) & 0xff) as usize
    }
    pub(crate) fn inflight_at(&self, k: usize) -> bool {
        (self.inflight >> k) & 1 == 1
    }
    /// queue position of slot i (QMAX if absent)
    pub(crate) fn pos_of(&self, i: usize) -> usize {
        let mut r = QMAX;
        let mut k = 0;
        // entries are distinct slots, so qlen <= cap: concrete loop bound
        while k < self.cap && k < QMAX {
            if k < self.qlen && self.q_at(k) == i && r == QMAX {
                r = k;
            }
            k += 1;
        }
        r
    }
    pub(crate) fn slot_inflight(&self, i: usize) -> bool {
        if !two_phase() || self.inflight == 0 {
            return false;
        }
        let p = self.pos_of(i);
        p < QMAX && self.inflight_at(p)
    }

    fn enqueue(&mut self, i: usize, inflight: bool) {
        let n = self.qlen;
        if big_queue() {
            assert!(n < MAXSLOT && i < MAXSLOT && !inflight, "waker_model: queue/slot limit of the model exceeded");
            unsafe { QX[self.id][(QX_HEAD[self.id] + n) % MAXSLOT] = i as u8 };
            self.qlen = n + 1;
            return;
        }
        assert!(n < QMAX && i < MAXSLOT, "waker_model: queue/slot limit of the model exceeded");
        self.q |= (i as u64) << (8 * n);
        if inflight {
            self.inflight |= 1u8 << n;
        }
        self.qlen = n + 1;
    }

    fn notify(&mut self) {
        if self.registered {
            self.registered = false;
            if let Some(w) = &self.task {
                w.wake_by_ref();
            }
        }
    }

    /// first half of a child wake performed by "another thread":
    /// flag set + enqueue started. Returns true if this call began an enqueue.
    pub(crate) fn wake_begin(&mut self, i: usize) -> bool {
        assert!(two_phase(), "waker_model: two-phase enqueue not enabled");
        if self.slot_inflight(i) {
            // the slot lock is held by the producer in flight: we would spin
            // until it finishes, then see the flag set.
            self.wake_finish(i);
            return false;
        }
        if self.flag(i) {
            return false;
        }
        self.flags |= 1u64 << i;
        self.enqueue(i, true);
        true
    }

    /// second half: link becomes visible, task notified, slot lock released.
    pub(crate) fn wake_finish(&mut self, i: usize) {
        if !two_phase() || self.inflight == 0 {
            return;
        }
        let p = self.pos_of(i);
        if p < QMAX && self.inflight_at(p) {
            self.inflight &= !(1u8 << p);
            self.notify();
        }
    }

    pub(crate) fn wake_by_ref(&mut self, i: usize) {
        if !two_phase() || self.inflight == 0 {
            // fast path (nothing in flight): flag, enqueue, notify
            if !self.flag(i) {
                self.flags |= 1u64 << i;
                self.enqueue(i, false);
                self.notify();
            }
            return;
        }
        if self.wake_begin(i) {
            self.wake_finish(i);
        }
    }
}

/// the last owner is gone: release the "block"
fn release(id: usize) {
    let s = st(id);
    assert!(s.live, "waker_model: block released twice");
    s.live = false;
    crate::verif::probe_release(id);
    // dropping the header drops the stored task waker
    s.task = None;
}

fn inc_strong(id: usize) {
    st(id).strong += 1;
}

fn dec_strong(id: usize) {
    let s = st(id);
    s.strong -= 1;
    if s.strong == 0 {
        release(id);
    }
}

fn slot_of(data: *const ()) -> usize {
    // pointer difference inside the TAGS object: no memory access
    unsafe { data.cast::<u8>().offset_from(TAGS.as_ptr()) as usize }
}

// One vtable per list id: the (concrete) vtable address identifies the list,
// the data pointer only carries the slot.
unsafe fn vt_clone<const L: usize>(data: *const ()) -> RawWaker {
    child_clone(L, data)
}
unsafe fn vt_wake<const L: usize>(data: *const ()) {
    child_wake(L, data)
}
unsafe fn vt_wake_by_ref<const L: usize>(data: *const ()) {
    child_wake_by_ref(L, data)
}
unsafe fn vt_drop<const L: usize>(data: *const ()) {
    child_drop(L, data)
}
static VT0: RawWakerVTable = RawWakerVTable::new(vt_clone::<0>, vt_wake::<0>, vt_wake_by_ref::<0>, vt_drop::<0>);
static VT1: RawWakerVTable = RawWakerVTable::new(vt_clone::<1>, vt_wake::<1>, vt_wake_by_ref::<1>, vt_drop::<1>);
static VT2: RawWakerVTable = RawWakerVTable::new(vt_clone::<2>, vt_wake::<2>, vt_wake_by_ref::<2>, vt_drop::<2>);
static VT3: RawWakerVTable = RawWakerVTable::new(vt_clone::<3>, vt_wake::<3>, vt_wake_by_ref::<3>, vt_drop::<3>);

pub(crate) fn vtable(id: usize) -> &'static RawWakerVTable {
    match id {
        0 => &VT0,
        1 => &VT1,
        2 => &VT2,
        _ => &VT3,
    }
}

/// which list a child waker belongs to (None: not a model child waker)
pub(crate) fn list_of(w: &Waker) -> Option<usize> {
    let v = w.vtable();
    if core::ptr::eq(v, &VT0) {
        Some(0)
    } else if core::ptr::eq(v, &VT1) {
        Some(1)
    } else if core::ptr::eq(v, &VT2) {
        Some(2)
    } else if core::ptr::eq(v, &VT3) {
        Some(3)
    } else {
        None
    }
}

pub(crate) fn child_clone(l: usize, data: *const ()) -> RawWaker {
    inc_strong(l);
    RawWaker::new(data, vtable(l))
}

pub(crate) fn child_wake(l: usize, data: *const ()) {
    child_wake_by_ref(l, data);
    child_drop(l, data);
}

pub(crate) fn child_wake_by_ref(l: usize, data: *const ()) {
    st(l).wake_by_ref(slot_of(data));
}

pub(crate) fn child_wake_begin(l: usize, data: *const ()) -> bool {
    st(l).wake_begin(slot_of(data))
}

pub(crate) fn child_wake_finish(l: usize, data: *const ()) {
    st(l).wake_finish(slot_of(data))
}

pub(crate) fn child_drop(l: usize, _data: *const ()) {
    dec_strong(l);
}

impl WakerList {
    pub(crate) fn new(cap: usize) -> Self {
        let id = unsafe {
            let id = NEXT_ID;
            NEXT_ID += 1;
            id
        };
        assert!(id < MAXL && cap <= MAXSLOT, "waker_model: list/slot limit of the model exceeded");
        let s = st(id);
        *s = ST0;
        s.id = id;
        s.strong = 1;
        s.live = true;
        s.cap = cap;
        crate::verif::probe_alloc(id);
        Self { id }
    }

    pub(crate) fn st(&self) -> &'static mut St {
        st(self.id)
    }

    /// Safety: index must be within capacity
    pub(crate) unsafe fn push(&self, index: usize) {
        let s = self.st();
        if s.slot_inflight(index) {
            // spin on the slot lock until the producer in flight is done
            s.wake_finish(index);
        }
        if !s.flag(index) {
            s.flags |= 1u64 << index;
            s.enqueue(index, false);
        }
    }

    pub(crate) fn register(&mut self, waker: &Waker) {
        crate::verif::sched_point(0);
        let s = self.st();
        let up_to_date = match &s.task {
            Some(t) => t.will_wake(waker),
            None => false,
        };
        if !up_to_date {
            s.task = Some(waker.clone());
        }
        s.registered = true;
    }

    pub(crate) fn get(&self, index: usize) -> ManuallyDrop<Waker> {
        let p: *const u8 = unsafe { TAGS.as_ptr().add(index) };
        unsafe { ManuallyDrop::new(Waker::from_raw(RawWaker::new(p.cast(), vtable(self.id)))) }
    }

    pub(crate) fn verif_get(&self, index: usize) -> ManuallyDrop<Waker> {
        self.get(index)
    }

    pub(crate) unsafe fn pop(&self) -> ReadySlot<(usize, ManuallyDrop<Waker>)> {
        crate::verif::sched_point(1);
        let s = self.st();
        let n = s.qlen;
        let fl = if two_phase() { s.inflight } else { 0 };
        let r = if n == 0 {
            ReadySlot::None
        } else if fl & 1 != 0 {
            // tail is the stub and stub.next is still null
            ReadySlot::None
        } else if n >= 2 && fl & 2 != 0 {
            // front is linked, its successor's link is not yet written
            ReadySlot::Inconsistent
        } else {
            let e0 = s.q_at(0);
            if big_queue() {
                unsafe { QX_HEAD[s.id] = (QX_HEAD[s.id] + 1) % MAXSLOT };
            }
            s.q >>= 8;
            s.inflight = fl >> 1;
            s.qlen = n - 1;
            // flag cleared only after the slot left the queue
            s.flags &= !(1u64 << e0);
            ReadySlot::Ready((e0, self.get(e0)))
        };
        crate::verif::sched_point(2);
        r
    }
}

impl Drop for WakerList {
    fn drop(&mut self) {
        dec_strong(self.id);
    }
}
