//! verif hook (child module of `merge_bounded`)
use super::*;

impl<S> MergeBounded<S> {
    pub fn verif_from_parts(streams: FuturesUnorderedBounded<S>) -> Self {
        Self { streams }
    }
    pub fn verif_inner(&mut self) -> &mut FuturesUnorderedBounded<S> {
        &mut self.streams
    }
}
