//! verif hook (child module of `slot_map`): build / inspect a `PinSlotMap`
//! with arbitrary representation state. Compiled only with
//! `--cfg futures_buffered_verif`.
use super::*;

impl<F> PinSlotMap<F> {
    /// `slot(i)` gives the content of slot `i`: `Ok(f)` occupied, `Err(n)` =
    /// `NextFree(n)`. Nothing is checked: the caller states the invariant.
    pub(crate) fn verif_from_parts(
        cap: usize,
        mut slot: impl FnMut(usize) -> Result<F, usize>,
        free_head: usize,
    ) -> Self {
        let mut m = Self::new(cap);
        let mut filled = 0;
        for i in 0..cap {
            let s = match slot(i) {
                Ok(f) => {
                    filled += 1;
                    Slot::Occupied(f)
                }
                Err(n) => Slot::NextFree(n),
            };
            m.get_slot(i).unwrap().set(s);
        }
        m.free_head = free_head;
        m.filled = filled;
        m
    }

    /// `None` = occupied, `Some(n)` = `NextFree(n)`
    pub(crate) fn verif_next_free(&self, i: usize) -> Option<usize> {
        match &self.slots[i] {
            Slot::Occupied(_) => None,
            Slot::NextFree(n) => Some(*n),
        }
    }

    pub(crate) fn verif_peek(&self, i: usize) -> Option<&F> {
        match &self.slots[i] {
            Slot::Occupied(f) => Some(f),
            Slot::NextFree(_) => None,
        }
    }

    pub(crate) fn verif_free_head(&self) -> usize {
        self.free_head
    }

    pub(crate) fn verif_filled(&self) -> usize {
        self.filled
    }
}
