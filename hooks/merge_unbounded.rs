//! verif hook (child module of `merge_unbounded`)
use super::*;

impl<S> MergeUnbounded<S> {
    pub fn verif_from_parts(groups: Vec<FuturesUnorderedBounded<S>>, poll_next: usize) -> Self {
        let mut v = Vec::with_capacity(groups.len());
        for g in groups {
            v.push(MergeBounded { streams: g });
        }
        Self { groups: v, poll_next }
    }
    pub fn verif_group(&mut self, k: usize) -> &mut FuturesUnorderedBounded<S> {
        &mut self.groups[k].streams
    }
    pub fn verif_n_groups(&self) -> usize {
        self.groups.len()
    }
    pub fn verif_poll_next(&self) -> usize {
        self.poll_next
    }
}
