//! verif hook (child module of `join_all`)
use super::*;

impl<F: Future> JoinAll<F> {
    /// `written(i)`: `Some(x)` = result slot i already holds x
    pub fn verif_from_parts(
        queue: FuturesUnorderedBounded<F>,
        n: usize,
        mut written: impl FnMut(usize) -> Option<F::Output>,
    ) -> Self {
        let mut output = Vec::with_capacity(n);
        output.resize_with(n, MaybeUninit::uninit);
        let mut output = output.into_boxed_slice();
        for i in 0..n {
            if let Some(x) = written(i) {
                output[i].write(x);
            }
        }
        Self { queue, output }
    }
    pub fn verif_queue(&mut self) -> &mut FuturesUnorderedBounded<F> {
        &mut self.queue
    }
    pub fn verif_output_len(&self) -> usize {
        self.output.len()
    }
}
