//! verif hook (child module of the real `waker_list`): expose the private
//! per-slot waker constructor to `crate::verif`.
use super::*;

impl WakerList {
    pub(crate) fn verif_get(&self, index: usize) -> ManuallyDrop<Waker> {
        self.get(index)
    }
}
