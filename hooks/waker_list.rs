//! verif hook (child module of the real `waker_list`): expose the private
//! per-slot waker constructor to `crate::verif`.
use super::*;

impl WakerList {
    pub(crate) fn verif_get(&self, index: usize) -> ManuallyDrop<Waker> {
        self.get(index)
    }
}

impl WakerList {
    /// (block size, block align, offset of slot 0, size of a slot, align of a slot, size of the header)
    pub(crate) fn verif_layout(cap: usize) -> (usize, usize, usize, usize, usize, usize) {
        let l = WakerList::layout(cap);
        (
            l.size(),
            l.align(),
            slice_offset(),
            core::mem::size_of::<WakerItem>(),
            core::mem::align_of::<WakerItem>(),
            core::mem::size_of::<WakerHeader>(),
        )
    }
}
