#!/usr/bin/env python3
"""Generates /verif/MANIFEST.json from the harness registry."""
import json, os, subprocess

V = os.path.join(os.path.dirname(os.path.abspath(__file__)), "..")
table = json.load(open(os.path.join(V, "harnesses.json")))
props = [json.loads(l) for l in open(os.path.join(V, "properties.jsonl")) if l.strip()]

hook_commits = subprocess.run(["git", "-C", "/repo", "log", "--format=%H %s"], capture_output=True, text=True).stdout.splitlines()
hook_commits = [l.split()[0] for l in hook_commits if "verif hook" in l]

TEXT = {
 "C01": ("Bounded model checking of the compiled crate (Kani/CBMC): inductive step harnesses. From EVERY state satisfying the representation invariant (INV: slot map, ready queue incl. stale and in-flight entries, registration, ghost 'needs a poll' relation) one poll / push / child-waker call is executed with symbolic child answers, symbolic task waker (A or B) and a racing wake injected at any WakerList operation boundary; obligations: INV again, a Pending return leaves no queued held child un-polled unless the task waker OF THAT POLL was invoked, a wake while the task sleeps notifies the most recently registered waker. History length is unbounded by induction; capacity (<=3), groups (<=2), racing events (<=1 per call) are bounded.",
         "Claimed for operation-granular interleavings only: wakes of other threads are atomic events (plus the two halves of cordyceps' enqueue) at WakerList operation boundaries of a sequential reference model of waker_list.rs; interleavings inside cordyceps / diatomic-waker / spin and weak-memory reorderings are NOT covered. Budget 61 covered by fub_poll_budget (capacity 1)."),
 "C02": ("Step harnesses: from every INV state one poll_next / try_push / waker call; obligations: a yielded item is the output of a held future that completed in this call, its slot and only its slot is vacated, the held count changes by exactly one, Ready(None) iff nothing is held, never Pending when empty, INV (free list = simple path over exactly the vacant slots, rem = sum over groups, ordered: queue places are a bijection) re-established. Covers FuturesUnorderedBounded, FuturesUnordered (group removal/rotation/creation), FuturesOrderedBounded.", "capacities <= 3, groups (1,2); FuturesOrdered (unbounded ordered) only in the thorough tier / via its shared code paths"),
 "C03": ("SEQUENTIAL part only. The REAL waker_list.rs with the real cordyceps / diatomic-waker / spin is model-checked with Kani's memory-safety checks ON (pointer validity, use of a deallocated object, double free, out-of-bounds) in fixed-order lifecycle shapes: new(cap), register, push(i), pop, clone of the slot's waker (slot index symbolic, so every slot offset inside the block up to the capacity bound), then the collection and the clone die in each of three orders with a wake (by ref / by value) in between; cfg-guarded probes in new()/drop_inner() show the block is allocated once and released exactly once, only when the last owner (collection handle or waker) is gone; a wake after the collection is gone only wakes the last registered task. A FIFO/coalescing/registration shape shows the real list answers as the reference model assumes.", "NOT covered (cannot be encoded with the installed tools: Kani is sequential): data races, cross-thread interleavings, adequacy of the Relaxed/Release/Acquire orderings of the reference count. Capacities 1-3; cordyceps built with its `no-cache-pad` feature (layout only); CAS / spin loops unwound once with unwinding assertions (they cannot fail sequentially)."),
 "C04": ("Step harnesses on FuturesOrderedBounded with next_outgoing_index an arbitrary 64-bit word: every yield is the element at queue place 0, every other element keeps its place (relative to the new front), push_back/push_front place the future behind/ahead of everything, also across wrap-around and the re-basing block; buffered_ordered yields in upstream order; join_all/try_join_all put output i at index i.", "capacity 2, <=2 parked outputs; heap loops unwound 3-4"),
 "C05": ("Scripted children assert on themselves that they are never polled after completion (also via stale wakers and after slot reuse) and ghost-check that a finished future / ended source is dropped before the call that observed its completion returns; checked in every step harness of the bounded collection, the merge and join_all.", "capacities <= 3"),
 "C06": ("Drop-counting scripted futures, streams and output tokens: Step(drop) of the collection from every INV state with wakers outliving it; join_all/try_join_all: one poll then drop of the pending combinator or of the result, error path of try_join_all.", "2 inputs / capacity 2"),
 "C07": ("join_all/try_join_all: one poll from every INV_join state (slot written <=> input finished), garbage-proof oracle (counts resolved inputs before looking at the Vec), and a second poll after an Err.", "2 inputs"),
 "C08": ("Scripted !Unpin children record their address at the first poll and assert it at every later poll and in Drop; pre-states contain children 'polled before at their current address'; steps: poll, push incl. group creation, group removal/rotation in FuturesUnordered.", "capacities (1,2); moves of the collection value itself are covered by the address being that of the boxed slot, which no step changes"),
 "C09": ("Adapter step harnesses (buffered_unordered, try_buffered_unordered, for_each_concurrent, buffered_ordered, try_buffered_ordered): from every pre-state (upstream present with arbitrary remainder / gone; in-flight collection in any INV state) one poll with a scripted upstream; obligations: never more than n in flight; at a Pending return n items are pending, or upstream is gone, or upstream was asked in this call and answered Pending.", "n in {1,2}; <=2 upstream items remaining"),
 "C10": ("Same adapter steps: upstream never polled after None (asserted by the scripted upstream), every pulled item is in flight, parked or yielded (nothing lost, duplicated or invented), upstream errors forwarded by the call that pulled them with the in-flight set untouched, None/completion exactly when upstream is gone and nothing is pending, never Pending then; for_each_concurrent(0).", "n in {0,1,2}"),
 "C11": ("Merge step harnesses with sources yielding numbered items: a yielded item is the next item of its source, no other source loses an item, a source is removed exactly when it answered None, None iff no live source, Pending only with live sources whose last answer was Pending.", "2 sources / groups (1,2)"),
 "C12": ("Step harnesses: a child polled in a call was queued at entry or woken during the call, at most once per notification; child polls + queue length <= queue length at entry + wakes; a wake of an already queued slot adds no entry; push reuses a stale entry; waker clone/drop never touch the queue.", "capacity <= 3"),
 "C13": ("Bounded work: child polls per call <= 61 (checked with a child that wakes itself on every poll, loop unwound 63), budget stop wakes the task; FIFO: every child queued (and linked) at entry is polled by a Pending call; across groups: ranking harness on MergeUnbounded (a queued victim not polled by a call must be nearer to its turn afterwards) and on FuturesUnordered (Pending implies every group was polled).", "capacity 1 for the budget; groups (1,2)"),
 "C14": ("Quiet-environment step: no self-wake, no racing wake, queue within budget => the call returns without invoking the task waker and leaves the queue empty; every step: the task waker is invoked only inside a child-waker call on the not-queued->queued transition (wake of a queued slot, clone, drop, push, drop of the collection never invoke it).", "capacity 2"),
 "C15": ("Constructors for every n in 0..=2 (a panic in the crate is a violation); try_push* from every INV state: accepted iff not full, refused push returns the very same future and leaves slot map, queue and position counters untouched; len/is_empty/size_hint/capacity against the ghost count after every step; FuturesUnordered accepts every push.", "capacities <= 2"),
 "C16": ("buffered_ordered / try_buffered_ordered step from every pre-state with <= n items pulled-and-not-yielded (running + parked, head of line possibly stalled): after one poll still <= n.", "n = 2"),
 "C18": ("Allocation counting: under Kani `alloc::alloc::alloc` and `alloc::alloc::realloc_nonnull` are stubbed by counting versions (natively the replayer installs a counting global allocator); every step harness of the bounded types (FuturesUnorderedBounded poll/push/waker clone-wake-drop, MergeBounded, buffered_unordered, try_buffered_unordered, for_each_concurrent, join_all / try_join_all incl. handing out the Vec) asserts ZERO allocator calls during the operation, from every INV state. FuturesUnordered: a poll never allocates; a push allocates only when the last group is full, then at most 3 times (slots, waker list, group list growth) for a group of twice the capacity; the largest group is never discarded => (arithmetic) the number of groups ever created is <= 2 + log2(peak/first capacity), independent of the number of futures processed.", "capacities (1,2) stand in for (32,64); the reference model reports one block per waker list as the real list allocates; growth of Vec<group> and of the ordered heap is counted as amortised doubling by std's documented behaviour; FuturesOrdered/MergeUnbounded share the FuturesUnordered group logic (MergeUnbounded poll checked directly)"),
 "C17": ("size_hint before and after every step of the collections and adapters against the ghost number of items still to be yielded (in flight + parked + honest upstream remainder).", "n = 2; upstream remainder <= 2"),
}

DESIGN_REF = {p: "DESIGN.md section 4 (%s)" % p for p in TEXT}

checks = []
claimed = sorted(set(p for h in table["harnesses"] for p in h["props"]))
for p in claimed:
    if p not in TEXT:
        continue
    checks.append({
        "property_id": p,
        "quick_cmd": "./check %s --tier quick" % p,
        "thorough_cmd": "./check %s --tier thorough" % p,
        "evidence_file": "/verif/evidence/%s.json" % p,
        "replay_cmd_template": "./check replay {harness} {path}",
        "engine": "kani-cbmc",
        "level_claimed": {"category": "model_checking", "text": TEXT[p][0], "design_ref": DESIGN_REF[p]},
        "level_note": TEXT[p][1] + " Trusted base: Kani 0.68 / CBMC 6.11 / CaDiCaL, the Waker stubs, the waker_list reference model (Layer U), the invariant INV being inductive (re-established by every step harness).",
        "technique": ("bounded model checking (Kani -> CBMC, SAT) of the real waker_list.rs with memory-safety checks, fixed-order lifecycle shapes" if p == "C03" else
                      "bounded model checking (Kani -> CBMC, SAT) of inductive step harnesses over the compiled crate; counterexamples replayed natively"),
    })

NA = {
}
m = {
 "version": 1,
 "setup_cmd": "./check setup",
 "hooks": {
   "guard": "futures_buffered_verif",
   "enable": "RUSTFLAGS=\"--cfg futures_buffered_verif [--cfg futures_buffered_verif_model]\" (set by /verif/check for cargo kani and for the native replayer; hook bodies live in /verif/hooks and are pulled in by #[path] child modules)",
   "baseline_off_cmd": "cd /repo && cargo test --workspace --no-fail-fast --offline --lib --tests",
   "source_commits": hook_commits,
   "add_only": True,
 },
 "engines": [{"name": "kani-cbmc", "path": "/verif/check", "serves_properties": [c["property_id"] for c in checks],
              "kind_free_text": "Kani 0.68 compiles /repo (hooks on) + /verif/kani into goto binaries; CBMC 6.11 + CaDiCaL decide every harness; python driver, native replayer"}],
 "checks": checks,
 "notes": "Hooks are add-only except that a `#[cfg(not(futures_buffered_verif_model))]` attribute line was put above the existing `mod waker_list;` (no-op with the guard off). VERIF_SEED only permutes harness scheduling.",
 "not_applicable": [{"property_id": p, "reason": r} for p, r in NA.items() if p not in [c["property_id"] for c in checks]],
}
json.dump(m, open(os.path.join(V, "MANIFEST.json"), "w"), indent=1)
print("checks:", [c["property_id"] for c in checks], "n/a:", [x["property_id"] for x in m["not_applicable"]])
