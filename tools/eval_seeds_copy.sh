#!/bin/bash
# usage: eval_seeds_copy.sh <tier> <seed ids...>
# as eval_seeds.sh, but on a scratch worktree of /repo (/tmp/repo_eval) and a copy of the harness crate, so that it can run
# while other checks are using /repo; evidence of these runs goes to /tmp/evidence_e (they describe changed code)
T=${1:-quick}; shift
cd /verif
R=/tmp/repo_eval; K=/tmp/kani_e
[ -d $R ] || git -C /repo worktree add -q --detach $R HEAD
mkdir -p .cache/logs/seeds
for id in "$@"; do
  P=$(python3 -c "import json;print(json.load(open('/verif/seeded/$id/meta.json'))['property'])")
  git -C $R checkout -q -- .
  rsync -a --delete --exclude target /verif/kani/ $K/
  sed -i "s|path = \"/repo\"|path = \"$R\"|" $K/Cargo.toml
  if ! git -C $R apply /verif/seeded/$id/patch.diff; then echo "$id $P APPLY-FAILED" >> .cache/logs/seeds/summary-copy-$T.txt; continue; fi
  s=$(date +%s)
  FBV_REPO=$R FBV_KANI_CRATE=$K FBV_TARGET_SUFFIX=-e FBV_EVIDENCE_DIR=/tmp/evidence_e ./check $P --tier $T > .cache/logs/seeds/$id-$T.txt 2>&1
  rc=$?
  git -C $R checkout -q -- .
  v=$(grep -c "^VIOLATION" .cache/logs/seeds/$id-$T.txt)
  echo "$id $P exit=$rc violations=$v $(( $(date +%s) - s ))s  $(grep '^VIOLATION' .cache/logs/seeds/$id-$T.txt | head -1 | sed -E 's/.*\[(.*)\]/\1/' | cut -c1-120)" >> .cache/logs/seeds/summary-copy-$T.txt
done
git -C /repo worktree remove --force $R; git -C /repo worktree prune
rm -rf $K /tmp/evidence_e
