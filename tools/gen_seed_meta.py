#!/usr/bin/env python3
"""writes /verif/seeded/<id>/meta.json from the evaluation summaries"""
import json, os, re
V = os.path.join(os.path.dirname(os.path.abspath(__file__)), "..")
DESC = {
 "c01_register_after_drain": ("C01", "FuturesUnorderedBounded::poll_inner_no_remove registers the task waker only after the ready queue was found empty (check-then-register)", "a child waker invoked between the final pop (None) and the registration; e.g. the task waker changes between polls and the wake arrives while the new waker is being registered"),
 "c01_fu_cursor_no_wrap": ("C01", "FuturesUnordered::poll_next: the cursor wrap-around check hoisted out of the group loop", "two or more groups, the cursor parked on a later group (it just yielded), later groups Pending: earlier groups are neither polled nor registered with the current task waker"),
 "c02_rebase_parked_clear_bit": ("C02", "FuturesOrderedBounded re-basing block: parked outputs' top index bit cleared instead of flipped", "an output parked out of turn, then enough push_front calls to wrap next_outgoing_index below zero with two front-pushed futures of which the earlier completes first: outputs are never yielded"),
 "c02_fu_rotation_cursor_stuck": ("C02", "FuturesUnordered::poll_next: cursor not reset after re-adding the emptied last group", "two or more groups, the newest group drains completely while an older one still holds a future, no further push: older groups are never polled again, Pending for ever"),
 "c03_wake_by_value_queued_leak": ("C03", "waker_list.rs `wake` (by value): early return when the slot is already queued skips the reference-count decrement", "an owned (cloned) waker consumed by wake() while its slot is already queued (two clones both waking before the next poll, or after the collection is gone): the shared block is never released"),
 "c04_push_front_ignores_parked": ("C04", "FuturesOrderedBounded::try_push_front takes the back slot when no future is RUNNING (ignores parked outputs)", "at least one output parked in the heap, no future running, then push_front: the new future is yielded after the parked outputs"),
 "c05_merge_retire_one_per_poll": ("C05", "MergeBounded retires at most one ended stream per poll_next; a second one ending in the same call is re-queued", "two merged streams return None inside one poll_next: the second is not dropped before the call returns and is polled again after its None"),
 "c06_tja_drop_outputs_break": ("C06", "TryJoinAll::drop_outputs: `break` instead of `continue` at the failing index", "the failing input at index i returns Err after an input at a higher index already returned Ok: that Ok output is never dropped"),
 "c07_tja_fastpath_keeps_buffer": ("C07", "TryJoinAll::drop_outputs: 'nothing to release' fast path also skips emptying the result buffer", "the failing input is the first to complete, and the combinator is polled again after Ready(Err): Ok(Vec) of n elements no input produced"),
 "c08_growth_moves_straggler": ("C08", "FuturesUnordered::push, growth path: a lone future in the oldest group is moved (by value) into the new group", "second or later growth with the oldest group holding exactly one already polled future: it changes address"),
 "c09_bu_one_for_one_refill": ("C09", "BufferUnordered::poll_next pulls at most one new future per call when the queue is non-empty on entry", "n >= 3, two or more free slots with a non-empty queue and upstream having two or more items ready: Pending below the limit although upstream answered only items"),
 "c10_bo_early_none_ignores_parked": ("C10", "BufferedOrdered::poll_next returns None as soon as upstream ended and no future is RUNNING", "upstream's None seen in a poll where nothing runs but a completed output is still parked: that output is lost"),
 "c11_rotation_keeps_cursor": ("C11", "MergeUnbounded::poll_next: cursor not reset after re-adding the emptied last group", "more than one group, every source of the last group ends while an earlier group has live sources: earlier groups are never polled again"),
 "c12_budget_wakes_child": ("C12", "FuturesUnorderedBounded: the budget check moved inside the match arm, where `cx` is the CHILD's context", "a poll that pops 61 queued slots without any Ready: the 61st child's slot waker is invoked, it gets an unprompted extra poll"),
 "c13_budget_stop_no_wake": ("C13", "FuturesUnorderedBounded: the budget stop no longer wakes the task", "more than 61 entries in one group's ready queue and none of the first 61 polled children wakes itself: the rest is forgotten until an unrelated wake"),
 "c14_fu_rotation_spurious_wake": ("C14", "FuturesUnordered::poll_next wakes the task when it re-adds the emptied last group", "two or more groups, the last group empty, an earlier group still holding pending children: every poll wakes the task although no child waker was invoked"),
 "c15_refused_push_front_moves_counter": ("C15", "FuturesOrderedBounded::try_push_front decrements next_outgoing_index before the capacity check", "a refused try_push_front / panicking push_front on a full queue: held futures are never yielded afterwards"),
 "c16_fill_guard_off_by_one": ("C16", "ordered adapters' fill loop: `len() <= cap && running < cap`", "head-of-line stalled with a later output parked and n items in flight: one item too many is pulled"),
 "c17_fo_hint_ignores_parked": ("C17", "FuturesOrdered::size_hint delegates to the inner unordered collection", "an output parked out of turn: the hint is too small by the number of parked outputs"),
 "c18_tja_err_path_collects": ("C18", "TryJoinAll::poll Err branch collects the in-flight slot indices into a temporary Vec", "a child of try_join_all fails while at least one sibling is still in the queue: heap allocation after construction"),
 "c03_drop_waker_wrong_layout": ("C03", "waker_list.rs drop_waker releases the block with layout(len + 1) instead of layout(len)", "a waker outlives the collection and is the last owner; visible (with cache padding) only for capacities where the extra slot crosses a padding boundary"),
 "c13_mu_cursor_clamped": ("C13", "MergeUnbounded: after an item the cursor is clamped to the last group instead of wrapping", "two or more groups, an always-ready stream in the LAST group, a woken victim in an earlier group: starved"),
 "c14_vacant_slot_self_wake": ("C14", "FuturesUnorderedBounded: dequeuing a vacant slot wakes the task and returns Pending", "a stale wake of a finished child (retained waker fired later, or self-wake in the completing poll): spurious task wakes although no child waker was invoked since"),
 "c06_ja_drop_early_exit": ("C06", "Drop for JoinAll stops scanning after `collected` slots (counts every slot scanned)", "join_all dropped while a pending input has a lower index than a completed one: that output leaks"),
 "c10_bu_upstream_polled_after_none": ("C10", "BufferUnordered defers dropping the ended upstream until after the in-flight queue is polled (which returns early)", "upstream ends while a future is still in flight: upstream is polled again after None"),
 "c05_slotmap_last_child_deferred_drop": ("C05", "PinSlotMap::remove defers dropping the last occupant until the next insert", "a child completing as the only live entry of its set is not dropped when its output is returned"),
 "c12_merge_requeues_all_on_end": ("C12", "MergeBounded re-queues every source of the group when one source ends", "one source returns None while others are pending and un-woken: each gets an unprompted poll"),
 "c01_notify_only_on_wake_by_value": ("C01", "waker_list.rs child vtable: wake_by_ref enqueues the child but no longer notifies the stored task waker (only the by-value wake does)", "any child future that wakes through `waker.wake_by_ref()` while the collection is parked: the child is queued but the task is never rescheduled"),
 "c15_slotmap_free_head_min": ("C15", "PinSlotMap::remove: free_head = min(old free_head, key) instead of key", "remove of a slot with a larger index than the current free head: the freed slot is linked to the old head but never reachable, later inserts overwrite / the collection refuses pushes although it has room"),
 "c04_orderwrapper_signed_cmp": ("C04", "OrderWrapper::cmp compares the positions as isize", "two outputs parked out of turn whose positions straddle the sign bit (after push_front wrapped below zero, or after 2^63 pushes): the heap releases them in the wrong order or withholds the front one"),
 "c09_for_each_no_refill_after_completion": ("C09", "for_each_concurrent: after a future completes the loop no longer goes round to refill from the live upstream", "a future completes while upstream still has items: returns Pending with a free slot and without having polled upstream again"),
 "c16_try_ordered_counts_running_only": ("C16", "TryBufferedOrdered fill guard counts only running futures, not outputs parked out of turn", "head-of-line future stalled while later ones complete: more than n futures+outputs held"),
 "c04_join_all_swaps_batch": ("C04", "JoinAll::poll swaps outputs when two futures complete in one poll in descending slot order", "futures 1 then 0 woken and both completing in the same poll: output vector has them swapped"),
 "c15_fu_is_empty_last_group": ("C15", "FuturesUnordered::is_empty looks only at the newest group", "newest group drained while an older group still holds futures: is_empty() is true with len() > 0"),
 "c11_mu_push_drains_older_groups": ("C11", "MergeUnbounded::push discards the older groups when the newest group is empty", "push after the newest group's streams all ended while an older group still holds live streams: those streams are dropped and their items never yielded"),
 "c07_join_all_repoll_len_from_capacity": ("C07", "JoinAll::poll builds the result Vec with Vec::from_raw_parts(ptr, queue.capacity(), ..) instead of converting the taken buffer", "join_all polled again after it returned Ready: a Vec of n elements over the dangling placeholder buffer - values no input produced"),
 "c08_fu_growth_relocates_old_groups": ("C08", "FuturesUnordered::push growth path moves the remaining futures of all older groups into the new group (new PinSlotMap::into_values)", "two or more groups, a non-last group holds an already-polled pending child, a push finds the last group full: that child is polled and dropped at a new address"),
 "c17_fo_size_hint_upper_ignores_parked": ("C17", "FuturesOrdered::size_hint = inner hint with parked outputs added to the lower bound only", "an output parked behind a slower head future: upper bound below the number of items still to be yielded"),
 "c05_mb_finished_budget_requeues": ("C05", "MergeBounded::poll_next retires at most 4 ended sources per call; the 5th is re-queued, the task woken and Pending returned", "five or more sources answering None within one poll_next: the fifth is not dropped by that call and is polled again after None"),
 "c12_mb_requeues_pending_source": ("C12", "MergeBounded::poll_next re-arms a source through its own waker for every answer except None (also for Pending)", "any source answering Pending: re-queued without anybody invoking its waker, re-polled up to the budget in the same call and on every later poll"),
 "c14_fu_wakes_after_group_retired": ("C14", "FuturesUnordered::poll_next wakes its own task before returning Pending whenever a group returned Ready(None) during the scan", "newest group empty (kept for its allocation) while an older group holds a sleeping child: every Pending poll wakes the task, busy loop"),
 "c18_mu_swap_remove_group": ("C18", "MergeUnbounded::poll_next removes a drained group with swap_remove", "three or more groups, a non-last group drains: the largest group is no longer last, later pushes allocate a new group although the largest has room and the largest is discarded when it drains: allocations grow linearly with processed streams"),
 "c02_fub_empty_check_after_drain": ("C02", "FuturesUnorderedBounded::poll_inner_no_remove tests is_empty() only once the ready queue has been drained", "empty collection whose ready queue holds more than 61 stale wake-ups of finished children: Pending instead of Ready(None)"),
 "c03_wake_releases_lock_after_free": ("C03", "waker_list.rs by-value wake inlined: the slot's wake_lock guard now lives until after the reference count is given back", "collection dropped, last outstanding child waker consumed with wake(): the block is freed and then the guard's drop writes the lock byte inside it (use after free)"),
 "c10_bo_stale_exhausted_snapshot": ("C10", "BufferedOrdered::poll_next decides termination from a snapshot of stream.is_none() taken at the top of the call", "upstream ends in a poll in which the queue is empty or drains: Pending with nobody holding the waker instead of None"),
 "d1_ordered_capacity_zero": ("C15", "revert of fix d0831c9", "FuturesOrderedBounded::new(0) / FuturesOrdered::with_capacity(0) / buffered_ordered(0)"),
 "d2_join_all_leak": ("C06", "revert of fix d795b67", "join_all / try_join_all dropped while pending with outputs already collected"),
 "d3_try_join_all_uninit": ("C07", "revert of fix 1856dee", "try_join_all polled again after Err"),
 "d4_try_buffered_size_hint": ("C17", "revert of fix dde8a41", "try_buffered_* after upstream ended with futures in flight"),
 "d5_buffered_ordered_backlog": ("C16", "revert of fix 284ce65", "buffered_ordered with a stalled head-of-line future"),
 "d7_mu_starvation": ("C13", "revert of fix 4d0a8c8", "MergeUnbounded: always-ready stream in one group, woken victim in another"),
 "d8_mu_pending_when_ended": ("C11", "revert of fix c614f8e", "MergeUnbounded: streams of both groups end in one poll with the cursor on the last group"),
 "c18_fu_swap_remove": ("C18", "FuturesUnordered::poll_next removes a drained group with swap_remove", "three or more groups, a small group drains while larger ones hold futures: the largest group is no longer last, gets discarded when it drains and is re-allocated: allocations grow with the number of futures processed"),
}
res = {}
for fn in sorted(os.listdir(os.path.join(V, "seeded"))):
    if fn.startswith("eval-") and fn.endswith(".txt"):
        for l in open(os.path.join(V, "seeded", fn)):
            m = re.match(r"(\S+) (\S+) exit=(\d+) violations=(\d+) (\d+)s\s*(.*)$", l.strip())
            if m:
                res.setdefault(m.group(1), {})[fn[:-4]] = {"check_exit": int(m.group(3)), "violations": int(m.group(4)), "wall_s": int(m.group(5)), "first_violation": m.group(6)}
for sid, (prop, change, needs) in DESC.items():
    d = os.path.join(V, "seeded", sid)
    if not os.path.isdir(d):
        continue
    demo = [f for f in os.listdir(d) if f.startswith("demo_")]
    meta = {
        "id": sid, "property": prop, "change": change, "needs_to_manifest": needs,
        "patch": "patch.diff", "demonstration": demo[0] if demo else None,
        "origin": ("reverse of one of this repository's `fix:` commits (demo written by a sub-agent from the fix commit)" if sid.startswith("d") else "written by an independent sub-agent that saw only the property text and a scratch worktree of /repo"),
        "confirmed_by": "tools/confirm_seed.sh in the scratch worktree: `cargo test --offline --lib --tests` = 44 passed with the change; the demo test fails with the change and passes without it",
        "evaluated_by": "tools/eval_seeds.sh: git -C /repo apply patch.diff; ./check %s --tier quick; git -C /repo checkout -- ." % prop,
        "detection": res.get(sid, {}),
    }
    json.dump(meta, open(os.path.join(d, "meta.json"), "w"), indent=1)
print("meta written for", len(DESC))
