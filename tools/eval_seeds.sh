#!/bin/bash
# usage: eval_seeds.sh [tier] [seed ids...] -- applies each seeded change to /repo, runs the property's check, undoes it
T=${1:-quick}; shift
cd /verif
IDS=${@:-$(ls -d seeded/*/ | xargs -n1 basename)}
mkdir -p .cache/logs/seeds
for id in $IDS; do
  P=$(python3 -c "import json;print(json.load(open('/verif/seeded/$id/meta.json'))['property'])")
  git -C /repo checkout -q -- . 
  if ! git -C /repo apply /verif/seeded/$id/patch.diff; then echo "$id $P APPLY-FAILED" >> .cache/logs/seeds/summary-$T.txt; continue; fi
  s=$(date +%s)
  ./check $P --tier $T > .cache/logs/seeds/$id-$T.txt 2>&1
  rc=$?
  git -C /repo checkout -q -- .
  v=$(grep -c "^VIOLATION" .cache/logs/seeds/$id-$T.txt)
  echo "$id $P exit=$rc violations=$v $(( $(date +%s) - s ))s  $(grep '^VIOLATION' .cache/logs/seeds/$id-$T.txt | head -1 | sed -E 's/.*\[(.*)\]/\1/' | cut -c1-120)" >> .cache/logs/seeds/summary-$T.txt
done
