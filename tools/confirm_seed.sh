#!/bin/bash
# usage: confirm_seed.sh <PROP> <seed-id> <demo-file-name>
# confirms a seeded change in its scratch worktree /tmp/mut_<PROP> and stores it under /verif/seeded/<seed-id>/
P=$1; ID=$2; DEMO=$3
W=/tmp/mut_$P
cd $W || exit 9
export CARGO_TARGET_DIR=$W/target
test -s patch.diff || { echo "no patch"; exit 9; }
git apply --check -R patch.diff 2>/dev/null || { git checkout -- src; git apply patch.diff || exit 9; }
mkdir -p /tmp/demo_aside_$P; mv tests/$DEMO /tmp/demo_aside_$P/ 
cargo test --offline --lib --tests > /tmp/confirm_$P.suite.log 2>&1; SUITE=$?
PASSED=$(grep -E "^test result: ok" /tmp/confirm_$P.suite.log | awk '{s+=$4} END {print s}')
mv /tmp/demo_aside_$P/$DEMO tests/
cargo test --offline --test ${DEMO%.rs} > /tmp/confirm_$P.with.log 2>&1; WITH=$?
git apply -R patch.diff
cargo test --offline --test ${DEMO%.rs} > /tmp/confirm_$P.without.log 2>&1; WITHOUT=$?
git apply patch.diff
echo "suite_exit=$SUITE passed=$PASSED demo_with_change_exit=$WITH demo_without_change_exit=$WITHOUT"
if [ "$SUITE" = 0 ] && [ "$PASSED" = 44 ] && [ "$WITH" != 0 ] && [ "$WITHOUT" = 0 ]; then
  mkdir -p /verif/seeded/$ID && cp patch.diff /verif/seeded/$ID/patch.diff && cp tests/$DEMO /verif/seeded/$ID/$DEMO
  echo CONFIRMED
else
  echo NOT-CONFIRMED
fi
