#!/usr/bin/env python3
"""usage: profile2.py <harness> [target-suffix] -- SSA steps per function with the registry's unwind settings"""
import sys, os, re, json, glob, subprocess, collections, importlib.machinery, importlib.util
V = os.path.dirname(os.path.dirname(os.path.abspath(__file__)))
loader = importlib.machinery.SourceFileLoader("chk", os.path.join(V, "check"))
spec_ = importlib.util.spec_from_loader("chk", loader); chk = importlib.util.module_from_spec(spec_); loader.exec_module(chk)
name = sys.argv[1]; suffix = sys.argv[2] if len(sys.argv) > 2 else ""
reg = {h["name"]: h for h in json.load(open(os.path.join(V, "harnesses.json")))["harnesses"]}
spec = reg[name]
outs = [o for o in glob.glob(os.path.join(V, ".cache", "target-%s%s" % (spec["layer"], suffix), "kani/*/debug/build/fbv/*/out/*%s.out" % name)) if "symtab" not in o]
goto = max(outs, key=os.path.getmtime)
args = ["cbmc"] + chk.BEHAV + [a for a in chk.COMMON if a not in ("--json-ui", "--trace")] + ["--unwind", str(spec["unwind"])]
ids = chk.loop_ids(goto); us = []
for pat, n in spec.get("unwindset", {}).items():
    rx, _, o = pat.partition("#")
    us += ["%s:%d" % (i, n) for i, d in ids.items() if re.search(rx, i + " " + d) and (o == "" or i.rsplit(".", 1)[-1] == o)]
if us: args += ["--unwindset", ",".join(us)]
args += [goto, "--program-only", "--verbosity", "4"]
p = subprocess.Popen(args, stdout=subprocess.PIPE, stderr=subprocess.DEVNULL, text=True)
c = collections.Counter()
for line in p.stdout:
    m = re.match(r"// \d+ file \S+ line \d+(?: column \d+)? function (.*)", line)
    if m: c[re.sub(r"::<.*$", "", m.group(1))] += 1
for f, n in c.most_common(int(os.environ.get("TOP", "25"))): print("%8d %s" % (n, f))
