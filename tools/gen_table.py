#!/usr/bin/env python3
"""Generates /verif/harnesses.json (the harness registry read by /verif/check)."""
import json, os

H = []

QUICK = {
    "C01": ["fub_poll_c2", "fub_poll_c2_inflight", "fub_poll_c2_handles", "fub_wake_c2", "fub_wake_c2_inflight", "fub_push_c2", "fub_poll_budget", "fub_poll_budget_many", "mb_poll_c2", "fu_cur_12_c1", "wl_fifo_c2"],
    "C02": ["fub_poll_c2", "fub_stale_many", "fub_push_c2", "fob_push_c2", "fu_poll_2", "fu_push_12", "fob_poll_c2", "fu_cur_12_c1", "fu_cur_12_c0", "sm_step_c3"],
    "C04": ["fob_poll_c2", "fob_poll_c2_p0", "fob_poll_c1_p2", "fob_push_c2", "fo_observe_c2", "ad_bo_n2_p0", "ja_poll_n2", "ctor_fub_from_iter"],
    "C05": ["fub_poll_c2", "mb_poll_c2", "mb_end_many_6", "ja_poll_n2", "fub_poll_c2_handles"],
    "C06": ["fub_drop_c2", "ja_poll_n2", "tja_poll_n2", "mb_poll_c2", "fob_drop_c2", "fob_poll_drop_c1", "fob_poll_drop_c1_hi"],
    "C07": ["ja_poll_n2", "tja_poll_n2"],
    "C08": ["fub_poll_c2", "fu_poll_2", "fu_push_12", "fu_push_2", "fu_cur_12_c0", "mu_push_12", "mu_poll_12_c1"],
    "C09": ["ad_bu_n2", "ad_bu_n3", "ad_tbu_n2", "ad_fe_n1", "ad_bo_n2_p0"],
    "C10": ["ad_bu_n2", "ad_tbu_n2", "ad_fe_n1", "ad_fe_n0", "ad_bo_n2_p0", "ad_bo_n2", "ad_tbo_n2_q0"],
    "C11": ["mb_poll_c2", "mb_push_c2", "mb_end_many_6", "mu_poll_12_c0", "mu_poll_12_c1", "mu_push_12", "ctor_mb_from_iter"],
    "C12": ["fub_poll_c2", "fub_wake_c2", "fub_push_c2", "mb_poll_c2", "fu_poll_2", "fub_poll_budget_61"],
    "C13": ["fub_poll_c2", "fub_budget_fifo", "fub_poll_budget", "fub_poll_budget_61", "fub_poll_budget_many", "mu_poll_12_c0", "mu_poll_12_c1", "fu_poll_2", "fu_cur_12_c1"],
    "C14": ["ad_bu_n2", "ad_fe_n1", "mu_poll_12_c1", "fub_poll_c2_quiet", "fub_wake_c2", "fub_push_c2", "fub_drop_c2", "fu_cur_12_c0", "fub_poll_budget_61"],
    "C15": ["fub_poll_c2", "fub_push_c2", "fub_push_c0", "fob_push_c2", "fob_new", "fo_new", "fu_push_12", "fu_cur_12_c0", "sm_step_c3", "ctor_fub_from_iter", "ctor_fu_0", "ctor_fu_2"],
    "C16": ["ad_bo_n2", "ad_tbo_n2"],
    "C17": ["fub_poll_c2", "fu_poll_2", "fob_poll_c2", "fo_observe_c2", "ad_bu_n2", "ad_tbu_n2", "ad_bo_n2"],
    "C03": ["wl_shape0_c2", "wl_shape1_c2", "wl_shape2_c2", "wl_shape3_c2", "wl_fifo_c2", "wl_layout"],
    "C18": ["fub_poll_c2", "fub_push_c2", "fub_wake_c2", "ja_poll_n2", "tja_poll_n2", "fu_push_12", "fu_poll_2", "fu_rot_124_c0", "fu_rot_124_c1", "ad_bu_n2", "mu_push_12", "mu_rot_124_c0"],
}

def h(name, props, tiers, unwind=6, unwindset=None, covers=(), timeout=900, mem=8, layer="model",
      what="", bounds="", **kw):
    quick = sorted(p for p in props if name in QUICK.get(p, []))
    d = {"name": name, "layer": layer, "unwind": unwind, "props": props, "quick": quick, "tiers": tiers,
         "covers": list(covers), "timeout": timeout, "mem_gb": mem, "what": what, "bounds": bounds}
    if unwindset:
        d["unwindset"] = unwindset
    d.update(kw)
    H.append(d)

Q, T, QT = ["quick"], ["thorough"], ["quick", "thorough"]
POLL = "poll_inner_no_remove#0"

# ---------------------------------------------------------------- FuturesUnorderedBounded
FUB_POLL = ["C01", "C02", "C05", "C08", "C12", "C13", "C14", "C15", "C17", "C18"]
W_FUB = ("FuturesUnorderedBounded<Fut>: ONE poll_next from an arbitrary INV pre-state (occupancy, free list, "
         "ready queue incl. stale entries of vacant slots, registration, ghost needs-poll relation), symbolic child answers")
h("fub_poll_c2", FUB_POLL, QT, covers=["cover:yield", "cover:none", "cover:pending", "cover:pending_woken"],
  what=W_FUB, bounds="capacity 2; <=1 self-wake; poll loop unwound 6 (>= cap+selfwakes+2), unwinding assertions on")
h("fub_poll_c1", FUB_POLL, T, covers=["cover:yield", "cover:none", "cover:pending"], what=W_FUB, bounds="capacity 1; <=1 self-wake")
h("fub_poll_c3", FUB_POLL, T, unwind=7, timeout=1800, covers=["cover:yield", "cover:none", "cover:pending"], what=W_FUB,
  bounds="capacity 3; <=1 self-wake; unwind 7")
h("fub_poll_c2_quiet", ["C14", "C12", "C02"], QT, covers=["cover:pending", "cover:yield"],
  what=W_FUB + "; QUIET environment: no child wakes itself, nobody invokes a waker",
  bounds="capacity 2; queue length <= 2 < per-poll budget 61")
h("fub_poll_c2_inflight", ["C01", "C13", "C02"], QT, covers=["cover:pending", "cover:yield"], inflight=True,
  what=W_FUB + "; pre-state queue entries may be enqueues IN FLIGHT on another thread (cordyceps' Empty/Inconsistent answers)",
  bounds="capacity 2; no self-wake; any subset of queue entries in flight")
h("fub_poll_c2_handles", ["C01", "C12", "C05"], QT, timeout=1200, covers=["cover:pending", "cover:yield"],
  what=W_FUB + "; two retained (possibly stale) child wakers, ONE racing wake injected at any WakerList operation boundary inside the poll",
  bounds="capacity 2; <=1 racing wake_by_ref at the boundaries of register/pop; no self-wake")
h("fub_poll_c2_env", ["C01", "C12"], T, timeout=1800, covers=["cover:pending", "cover:yield"], inflight=True,
  what=W_FUB + "; retained wakers; one racing event (wake / first half / second half of a wake on another thread) at any operation boundary; in-flight entries in the pre-state",
  bounds="capacity 2; <=1 racing event; two-phase enqueues")
W_BUD = ("FuturesUnorderedBounded<Spin> capacity 1: the child wakes itself on every poll until its k-th poll; "
         "the per-poll budget (61) is reached exactly when k > 61, the task is then woken; symbolic task waker")
h("fub_poll_budget", ["C13", "C01", "C14", "C12"], QT, unwind=6, unwindset={POLL: 63}, timeout=1200,
  covers=["cover:budget_exhausted"], what=W_BUD, bounds="k = 100 (> budget); poll loop unwound 63 (budget 61 + 2)")
h("fub_poll_budget_61", ["C13", "C01", "C14", "C12"], QT, unwind=6, unwindset={POLL: 63}, timeout=1200,
  covers=["cover:within_budget"], what=W_BUD, bounds="k = 61 (= budget)")
h("fub_poll_budget_3", ["C13", "C14", "C12"], T, unwind=6, unwindset={POLL: 63}, timeout=1200,
  covers=["cover:within_budget"], what=W_BUD, bounds="k = 3")
h("fub_poll_budget_many", ["C13", "C01"], QT, unwind=66, timeout=1200, covers=["cover:budget_exhausted"],
  what="FuturesUnorderedBounded<Idle> capacity 62 with all 62 children held and queued (none wakes itself): the call stops after 61 child polls and must wake its task, because the child left in the queue has already been notified",
  bounds="capacity 62, fully concrete state; every loop unwound 66")
h("fub_budget_fifo", ["C13", "C01"], QT, unwind=66, timeout=1200, covers=["cover:victim_waits_at_front"],
  what="FuturesUnorderedBounded<Busy> capacity 62: 61 children that wake themselves on every poll are queued AHEAD of a woken victim. ONE poll: bounded work, task woken, and the victim - not reached by this call - is now at the FRONT of the ready queue (FIFO kept across the budget stop), so it cannot be overtaken for ever",
  bounds="capacity 62, fully concrete state; every loop unwound 66")
h("fub_stale_many", ["C02", "C05", "C14", "C15"], QT, unwind=66, timeout=1200, covers=["cover:stale_many"],
  what="FuturesUnorderedBounded<Idle> capacity 62, EMPTY, with 62 stale ready-queue entries (wakers of finished children invoked after completion; more than the per-poll budget): the poll answers Ready(None) at once, polls nothing and wakes nobody",
  bounds="capacity 62, fully concrete state (registration flag and task symbolic); every loop unwound 66")
W_PUSH = "FuturesUnorderedBounded<Fut>: ONE try_push from an arbitrary INV pre-state (full or not, stale queue entry on the free slot or not)"
h("fub_push_c2", ["C15", "C02", "C01", "C12", "C14", "C17", "C18"], QT, covers=["cover:push_ok", "cover:push_refused", "cover:push_reuses_stale_entry"],
  what=W_PUSH, bounds="capacity 2")
h("fub_push_c3", ["C15", "C02", "C01", "C12", "C14", "C17", "C18"], T, covers=["cover:push_ok", "cover:push_refused", "cover:push_reuses_stale_entry"], what=W_PUSH, bounds="capacity 3")
h("fub_push_c0", ["C15"], QT, covers=["cover:push_refused"], what=W_PUSH, bounds="capacity 0")
h("fub_push_c2_inflight", ["C01", "C15"], T, covers=["cover:push_ok"], inflight=True, what=W_PUSH + "; enqueues in flight", bounds="capacity 2")
W_WAKE = ("FuturesUnorderedBounded<Fut>: the environment invokes (wake_by_ref / wake / clone+drop) the waker of an arbitrary slot "
          "(held child, or STALE: vacant slot) in an arbitrary INV pre-state, incl. 'task sleeping after a Pending poll with waker T'")
h("fub_wake_c3", ["C01", "C12", "C14", "C02", "C18"], T, covers=["cover:wake_notifies", "cover:wake_coalesced", "cover:stale_wake"], what=W_WAKE, bounds="capacity 3")
h("fub_wake_c2", ["C01", "C12", "C14", "C02", "C18"], QT, covers=["cover:wake_notifies", "cover:wake_coalesced", "cover:stale_wake"], what=W_WAKE, bounds="capacity 2")
h("fub_wake_c2_inflight", ["C01", "C12", "C14"], QT, covers=["cover:wake_notifies", "cover:stale_wake"], inflight=True,
  what=W_WAKE + "; the two halves of a wake racing on another thread as separate steps", bounds="capacity 2")
h("fub_drop_c2", ["C06", "C14", "C05"], QT, covers=["cover:drop_full"],
  what="FuturesUnorderedBounded<Fut>: drop from an arbitrary INV pre-state with two retained child wakers that outlive it (woken / dropped afterwards)",
  bounds="capacity 2")

h("reach_fub_c2_s3", ["C01", "C02", "C12"], T, unwind=5, timeout=1200, covers=["cover:reach_sleeping", "cover:reach_two_pushes"],
  what="history witness through the PUBLIC API: FuturesUnorderedBounded::new(2), then 3 symbolic operations out of {try_push, poll_next with a symbolic task waker, wake of a retained (possibly stale) child waker}; after every operation the state satisfies INV (I1..I4) - the invariant the step harnesses assume is not too strong",
  bounds="capacity 2; 3 operations; <=1 self-wake")

# ---------------------------------------------------------------- constructors (public API)
h("ctor_fub_from_iter", ["C15", "C02", "C04", "C01"], QT, covers=["cover:three", "cover:zero"],
  what="FuturesUnorderedBounded::from_iter of n futures (n symbolic, 0..=3): capacity = len = n, slot i holds input i, all marked ready in input order, INV holds, a further try_push is refused and returns the same future",
  bounds="n <= 3")
h("ctor_fob_from_iter", ["C04", "C15"], T, unwindset=FOB_US if False else {"FuturesOrderedBounded.*poll_next#2": 3, "poll_inner_no_remove#0": 4, "binary_heap": 3}, timeout=1200,
  covers=["cover:first_yield"], what="FuturesOrderedBounded::from_iter of 2 futures: positions 0,1 in input order; the first output yielded is input 0's", bounds="2 futures")
h("ctor_fu_0", ["C15", "C02", "C14"], QT, unwind=35, covers=["cover:cap0"], panic_is_violation=True, what="FuturesUnordered::with_capacity(0): empty, capacity 0, Ready(None), no task wake; then one push is accepted (no panic)", bounds="n = 0")
h("ctor_fu_2", ["C15", "C02", "C14"], QT, panic_is_violation=True, what="FuturesUnordered::with_capacity(2): empty, capacity 2, one group, Ready(None), no task wake; then one push is accepted (no panic)", bounds="n = 2")
h("ctor_mb_from_iter", ["C11"], QT, what="MergeBounded::from_iter of 2 sources: both held and marked ready in input order", bounds="2 sources")

# ---------------------------------------------------------------- Layer S: the slot map by itself
W_SM = ("PinSlotMap<u8>: ONE insert / remove / get with an arbitrary key (also out of range) from an arbitrary valid representation state "
        "(any occupancy, any free-list order); the representation invariant is re-established, no other slot is disturbed")
h("sm_step_c3", ["C02", "C15"], QT, unwind=6, covers=["cover:insert_ok", "cover:insert_refused", "cover:remove_occupied", "cover:remove_vacant_or_out_of_range"], what=W_SM, bounds="capacity 3")
h("sm_step_c4", ["C02", "C15"], T, unwind=7, covers=["cover:insert_ok", "cover:insert_refused", "cover:remove_occupied"], what=W_SM, bounds="capacity 4")

# ---------------------------------------------------------------- FuturesUnordered
FU_POLL = ["C01", "C02", "C05", "C08", "C12", "C13", "C15", "C17", "C18"]
W_FU = ("FuturesUnordered<Fut>: ONE poll_next from an arbitrary INV_unbounded pre-state (every group an arbitrary bounded INV state; "
        "cursor; rem = sum; an empty non-last group only at the cursor)")
h("fu_poll_2", FU_POLL, QT, covers=["cover:yield"], what=W_FU, bounds="one group of capacity 2; <=1 self-wake")
h("fu_poll_12", FU_POLL, QT, timeout=1800, mem=16, covers=["cover:yield", "cover:pending_two_groups", "cover:none_two_groups"], what=W_FU,
  bounds="two groups, capacities (1,2) standing in for (32,64); cursor 0; <=1 self-wake")
h("fu_poll_12_c1", FU_POLL, T, timeout=1800, mem=16, covers=["cover:yield", "cover:pending_two_groups"], what=W_FU, bounds="capacities (1,2); cursor 1")
h("fu_poll_12_c2", FU_POLL, T, timeout=1800, mem=16, covers=["cover:yield"], what=W_FU, bounds="capacities (1,2); cursor 2 (= wraps)")
h("fu_poll_12_quiet", ["C14"], T, timeout=1800, mem=16, covers=["cover:pending_two_groups"], what=W_FU + "; quiet environment", bounds="capacities (1,2); cursor 0")
W_CUR = W_FU + "; only the listed groups have queued children (the others answer Pending at once): cursor / group-list logic at low cost"
h("fu_cur_12_c1", ["C01", "C02", "C13", "C14", "C18", "C08"], QT, timeout=1500, covers=["cover:yield", "cover:pending_two_groups"], what=W_CUR, bounds="capacities (1,2); cursor 1; <=1 queued child per group; no self-wake")
h("fu_cur_12_c0", ["C01", "C02", "C13", "C14", "C18", "C08", "C15"], QT, timeout=1500, covers=["cover:yield", "cover:pending_two_groups", "cover:none_two_groups"], what=W_CUR, bounds="capacities (1,2); cursor 0; <=1 queued child per group; no self-wake")
W_ROT = ("FuturesUnordered<Fut> with THREE groups (1,2,4) in concrete inner states (one drained group at the cursor, one sleeping child in each other group): ONE poll_next; "
         "the drained group is discarded, the others keep their order by capacity (the largest stays last and is never discarded), rem / cursor stay consistent")
h("fu_rot_124_c0", ["C18", "C02", "C13", "C15"], QT, unwind=7, covers=["cover:group_discarded"], what=W_ROT, bounds="groups (1,2,4); cursor 0 = the drained smallest group")
h("fu_rot_124_c1", ["C18", "C02", "C13", "C15"], QT, unwind=7, covers=["cover:group_discarded"], what=W_ROT, bounds="groups (1,2,4); cursor 1 = the drained middle group")
W_FUP = "FuturesUnordered<Fut>: ONE push from an arbitrary INV_unbounded pre-state (last group full -> new group of twice the capacity)"
h("fu_push_12", ["C15", "C02", "C08", "C18", "C01", "C12", "C14"], QT, covers=["cover:push_new_group", "cover:push_last_group"], what=W_FUP, bounds="capacities (1,2)")
h("fu_push_2", ["C15", "C02", "C08", "C18"], QT, covers=["cover:push_new_group", "cover:push_last_group"], what=W_FUP, bounds="one group of capacity 2")

# ---------------------------------------------------------------- FuturesOrderedBounded
FOB_US = {"FuturesOrderedBounded.*poll_next#2": 3, POLL: 4, "binary_heap": 3}
W_FOB = ("FuturesOrderedBounded<Fut>: ONE poll_next from an arbitrary INV_ordered pre-state; next_outgoing_index is an arbitrary "
         "64-bit word (every value: wrap-around and the re-basing block), arbitrary assignment of queue places to running futures and parked outputs")
h("fob_poll_c2", ["C04", "C02", "C05", "C15", "C17"], QT, unwindset=FOB_US, timeout=1200,
  covers=["cover:yield_parked", "cover:yield_running", "cover:yield_rebased", "cover:pending_rebased"],
  what=W_FOB, bounds="capacity 2, exactly 1 parked output; no self-wake; outer loop unwound 3, poll loop 4, heap loops 3")
h("fob_poll_c2_p0", ["C04", "C02", "C15", "C17"], QT, unwindset=FOB_US, timeout=1200,
  covers=["cover:yield_running", "cover:none", "cover:pending_parked_more"], what=W_FOB, bounds="capacity 2, no parked output")
h("fob_poll_c1_p2", ["C04", "C02"], QT, unwindset={"FuturesOrderedBounded.*poll_next#2": 3, POLL: 3, "binary_heap": 4}, timeout=1200,
  covers=["cover:yield_parked", "cover:pending_rebased"], what=W_FOB, bounds="capacity 1, exactly 2 parked outputs (a heap whose order is decided by OrderWrapper::cmp); no self-wake")
h("fob_poll_c3", ["C04", "C02", "C05", "C15", "C17"], T, unwind=7, unwindset={"FuturesOrderedBounded.*poll_next#2": 4, POLL: 5, "binary_heap": 4}, timeout=3000, mem=30,
  covers=["cover:yield_parked", "cover:yield_running", "cover:pending_rebased"], what=W_FOB, bounds="capacity 3, exactly 1 parked output; no self-wake")
h("fob_poll_c2_p2", ["C04", "C02"], T, unwindset={"FuturesOrderedBounded.*poll_next#2": 3, POLL: 5, "binary_heap": 4}, timeout=2400, mem=20,
  covers=["cover:yield_parked"], what=W_FOB, bounds="capacity 2, 2 parked outputs, <=1 self-wake")
h("fo_observe_c2", ["C04", "C15", "C17", "C12"], QT, covers=["cover:push_front", "cover:push_back"],
  what="FuturesOrdered<Fut> (unbounded ordered queue, one inner group, symbolic 64-bit counters, one parked output): observers len / is_empty / size_hint / is_terminated against the ghost count, then ONE push_back / push_front (no poll: a poll of the unbounded ordered queue exceeds 40 GB in CBMC)",
  bounds="one group of capacity 2, exactly 1 parked output")
h("fob_push_c2", ["C04", "C15", "C02", "C12"], QT, covers=["cover:push_front", "cover:push_back", "cover:push_refused"],
  what="FuturesOrderedBounded<Fut>: ONE try_push_back / try_push_front from an arbitrary INV_ordered pre-state (symbolic 64-bit counters)",
  bounds="capacity 2, 1 parked output")
h("fob_drop_c2", ["C06"], QT, covers=["cover:drop_with_running"],
  what="FuturesOrderedBounded<TFut>: drop from an arbitrary INV_ordered pre-state with a parked (drop-counted) output: every running future and every parked output is dropped exactly once",
  bounds="capacity 2, 1 parked output")
h("fob_poll_drop_c1", ["C06"], QT, unwindset={"FuturesOrderedBounded.*poll_next#2": 3, POLL: 3, "binary_heap": 3}, timeout=1500, mem=16, covers=["cover:pending_rebased", "cover:yield"],
  what="as fob_poll_drop_c2 with capacity 1 (cheap enough to stay decidable for code that handles the parked outputs with raw-pointer loops)", bounds="capacity 1, 1 parked (drop-counted) output; no self-wake")
h("fob_poll_drop_c1_hi", ["C06"], QT, unwindset={"FuturesOrderedBounded.*poll_next#2": 3, POLL: 3, "binary_heap": 3}, timeout=1500, mem=24, covers=["cover:pending_rebased"],
  what="as fob_poll_drop_c1 with next_outgoing_index = 2^64-1 (concrete: the re-basing block is taken on every path)", bounds="capacity 1, 1 parked (drop-counted) output; concrete counter")
h("fob_poll_drop_c2", ["C06"], T, unwindset=FOB_US, timeout=2400, mem=30, covers=["cover:pending_rebased", "cover:yield"],
  what="FuturesOrderedBounded<TFut>: ONE poll_next from an arbitrary INV_ordered pre-state (symbolic 64-bit counter: re-basing with mem::take / into_vec included), then the item and the collection are dropped: every future, every output parked before or during the call and the yielded output dropped exactly once",
  bounds="capacity 2, 1 parked (drop-counted) output; no self-wake")
h("fob_new", ["C15"], QT, covers=["cover:cap0"], panic_is_violation=True,
  what="FuturesOrderedBounded::<Fut>::new(n) for every n in 0..=2 must not panic", bounds="n <= 2")
h("fo_new", ["C15"], QT, covers=["cover:cap0"], panic_is_violation=True,
  what="FuturesOrdered::<Fut>::with_capacity(n) for every n in 0..=2 must not panic", bounds="n <= 2")

# ---------------------------------------------------------------- merges
MB_US = {"MergeBounded.*poll_next#0": 4, POLL: 5}
h("mb_poll_c2", ["C11", "C05", "C01", "C12", "C06", "C18"], QT, unwindset=MB_US, timeout=1200,
  covers=["cover:item", "cover:pending", "cover:none_after_ends"],
  what="MergeBounded<Src>: ONE poll_next from an arbitrary INV pre-state; sources are scripted streams of numbered items with Pending gaps and end",
  bounds="2 sources; <=1 self-wake; merge loop unwound 4, poll loop 5")
h("mb_poll_c2_quiet", ["C14"], T, unwindset=MB_US, timeout=1200, covers=["cover:pending"], what="MergeBounded<Src>, quiet environment", bounds="2 sources")
W_MU = ("MergeUnbounded<Src> with two groups: ONE poll_next from an arbitrary pre-state; a designated VICTIM source is queued in one group; "
        "ranking obligation: if the victim is not polled by this call it must be nearer to its turn afterwards (cursor distance, queue position)")
h("mu_poll_12_c0", ["C13", "C11", "C01", "C18", "C08", "C14"], QT, unwindset=MB_US, timeout=1500, covers=["cover:item_from_other", "cover:pending"], what=W_MU, bounds="groups (1,2); cursor 0")
h("mu_push_12", ["C11", "C18", "C08", "C01", "C12"], QT, mem=24, timeout=1500, covers=["cover:push_new_group", "cover:push_last_group"],
  what="MergeUnbounded<Src>: ONE push (a source added while the merge is being consumed) from an arbitrary two-group pre-state: the last group takes it or a group of twice the capacity is appended; no source is polled, moved or dropped; allocations only for a new group",
  bounds="groups (1,2)")
h("mu_poll_12_c1", ["C13", "C11", "C01", "C08", "C14"], QT, unwindset=MB_US, timeout=1500, covers=["cover:item_from_other", "cover:pending"], what=W_MU, bounds="groups (1,2); cursor 1")
h("mb_poll_c3", ["C11", "C05", "C01", "C12", "C06"], T, unwind=7, unwindset={"MergeBounded.*poll_next#0": 5, POLL: 6}, timeout=3000, mem=30, covers=["cover:item", "cover:pending", "cover:none_after_ends"],
  what="MergeBounded<Src>: ONE poll_next from an arbitrary INV pre-state", bounds="capacity 3; <=1 item; no self-wake")
h("mb_push_c2", ["C11", "C01", "C12", "C08", "C14", "C18"], QT, covers=["cover:push_ok", "cover:push_refused"],
  what="MergeBounded<Src>: ONE try_push from an arbitrary INV pre-state (full or not): the source is held and marked ready, or handed back untouched; nothing polled, moved, dropped or woken; no allocation",
  bounds="capacity 2")
h("mb_end_many_6", ["C05", "C11", "C12", "C06", "C14"], QT, unwind=10, timeout=1200, covers=["cover:all_ended", "cover:one_left"],
  what="MergeBounded<EndSrc> with 6 queued sources of which an arbitrary subset answers None in ONE poll (the others Pending): every source polled exactly once, every ended source dropped by this call and never polled again, None iff all ended",
  bounds="6 sources, all queued, one poll; each source symbolic None/Pending; loops unwound 10")
W_MUROT = ("MergeUnbounded<EndSrc> with three groups (capacities 1,2,4) of one source each; a fixed subset of the sources is queued and a fixed subset answers None "
           "(concrete per harness: a symbolic subset exceeds 20 GB), so given groups run empty in ONE poll: remaining groups stay in increasing capacity order (the largest "
           "allocation stays last, where push and the keep-the-last-group rule expect it), exactly the emptied non-last groups are gone, no allocation, None iff all ended")
h("mu_rot_124_c0", ["C18", "C11", "C13"], QT, unwind=9, unwindset=MB_US, timeout=1500, covers=["cover:one_group_removed"], what=W_MUROT, bounds="groups (1,2,4), one source each; cursor 0; source 0 queued and ending")
h("mu_rot_124_c1", ["C18", "C11", "C13"], QT, unwind=9, unwindset=MB_US, timeout=1500, covers=["cover:two_groups_removed"], what=W_MUROT, bounds="groups (1,2,4), one source each; cursor 1; all queued, sources 0 and 1 ending")

# ---------------------------------------------------------------- adapters
AD_US = {POLL: 5}
W_AD = ("ONE poll from an arbitrary pre-state: upstream present (arbitrary remaining items, honest size_hint) or gone; "
        "in-flight collection in an arbitrary INV state; scripted upstream: item / Pending / end (/ error)")
h("ad_bu_n2", ["C09", "C10", "C17", "C01", "C02", "C18", "C14"], QT, unwindset=AD_US, covers=["cover:item", "cover:pending", "cover:end"],
  what="buffered_unordered(2): " + W_AD, bounds="n=2; <=2 upstream items remaining")
h("ad_bu_n3", ["C09", "C10", "C17"], QT, unwind=7, unwindset={POLL: 6}, timeout=1500, mem=12, covers=["cover:item", "cover:pending", "cover:end"],
  what="buffered_unordered(3): " + W_AD, bounds="n=3; <=3 upstream items remaining")
h("ad_bo_n1", ["C16", "C09", "C10", "C17"], T, unwindset=BO_US if False else {"poll_inner_no_remove#0": 5, "FuturesOrderedBounded.*poll_next#2": 3, "binary_heap": 3}, timeout=1200, covers=["cover:item", "cover:pending", "cover:end"],
  what="buffered_ordered(1): " + W_AD, bounds="n=1")
h("ad_tbu_n1", ["C09", "C10", "C17"], T, unwindset={"poll_inner_no_remove#0": 5}, covers=["cover:item", "cover:pending", "cover:end"],
  what="try_buffered_unordered(1): " + W_AD, bounds="n=1")
h("ad_bu_n1", ["C09", "C10", "C17"], T, unwindset=AD_US, covers=["cover:item", "cover:pending", "cover:end"],
  what="buffered_unordered(1): " + W_AD, bounds="n=1; <=1 self-wake")
h("ad_tbu_n2", ["C09", "C10", "C17", "C18", "C14"], QT, unwindset=AD_US, covers=["cover:item", "cover:pending", "cover:end", "cover:upstream_err_keeps_inflight"],
  what="try_buffered_unordered(2): " + W_AD, bounds="n=2")
FE_US = {POLL: 5, "ForEachConcurrent.*poll#0": 5}
h("ad_fe_n1", ["C09", "C10", "C05", "C18", "C14"], QT, unwindset=FE_US, timeout=1200, covers=["cover:complete", "cover:pending"],
  what="for_each_concurrent(1, f): " + W_AD, bounds="n=1; <=1 upstream item remaining")
h("ad_fe_n2", ["C09", "C10", "C14"], T, unwindset={POLL: 5, "ForEachConcurrent.*poll#0": 7}, timeout=2400, mem=20, covers=["cover:complete", "cover:pending"],
  what="for_each_concurrent(2, f): " + W_AD, bounds="n=2; <=1 upstream item remaining")
h("ad_fe_n0", ["C10"], QT, unwindset=FE_US, covers=[],
  what="for_each_concurrent(0, f) - documented as 'no limit': " + W_AD, bounds="n=0")
BO_US = {POLL: 5, "FuturesOrderedBounded.*poll_next#2": 3, "binary_heap": 3}
h("ad_bo_n2", ["C16", "C09", "C10", "C17", "C04", "C14"], QT, unwindset=BO_US, timeout=1200, covers=["cover:item", "cover:pending"],
  what="buffered_ordered(2): " + W_AD + "; 1 parked output in the pre-state (head of line stalled)", bounds="n=2; pre-state len <= n")
h("ad_bo_n2_p0", ["C16", "C09", "C10", "C17", "C04"], QT, unwindset=BO_US, timeout=1200, covers=["cover:item", "cover:pending", "cover:end"],
  what="buffered_ordered(2): " + W_AD + "; nothing parked in the pre-state", bounds="n=2")
h("ad_tbo_n2_q0", ["C10", "C16", "C09", "C17"], QT, unwindset=BO_US, timeout=2700, mem=30, covers=["cover:item", "cover:pending"],
  what=W_AD + " try_buffered_ordered(2) with one output parked out of turn; the ready queue of the in-flight collection is concretely empty (no future polled): the adapter's dealings with upstream (items, errors, end) and with the parked output, cheap enough to stay decidable for code that polls the collection more than once per call",
  bounds="n = 2, exactly 1 parked output, empty ready queue")
h("ad_tbo_n2", ["C16", "C09", "C10", "C17", "C14"], QT, unwindset=BO_US, timeout=2400, mem=24, covers=["cover:item", "cover:pending"],
  what="try_buffered_ordered(2): " + W_AD + "; 1 parked output", bounds="n=2")

# ---------------------------------------------------------------- join_all
JA_US = {POLL: 4, "JoinAll.*poll#0": 4, "JoinAll<.*Drop>::drop#0": 3}
TJA_US = {POLL: 4, "TryJoinAll.*poll#0": 4, "TryJoinAll.*poll#1": 3, "drop_outputs#0": 3}
h("ja_poll_n3", ["C06", "C07", "C04", "C05"], T, unwind=7, unwindset={POLL: 5, "JoinAll.*poll#0": 5, "JoinAll<.*Drop>::drop#0": 4}, timeout=3000, mem=30, covers=["cover:ready", "cover:pending_partial"],
  what="join_all of 3 inputs: ONE poll from an arbitrary INV_join pre-state, then the result - or the still pending combinator - is dropped", bounds="3 inputs")
h("ja_poll_n2", ["C06", "C07", "C04", "C05", "C18"], QT, unwindset=JA_US, covers=["cover:ready", "cover:pending_partial"],
  what="join_all of 2 inputs: ONE poll from an arbitrary INV_join pre-state (result slot written <=> input finished), then the result - or the still pending combinator - is dropped; outputs are drop-counted tokens",
  bounds="2 inputs")
h("tja_poll_n2", ["C06", "C07", "C04", "C18"], QT, unwindset=TJA_US, timeout=1500, mem=16, covers=["cover:ok", "cover:pending", "cover:poll_after_err", "cover:err_with_collected_outputs"],
  what="try_join_all of 2 inputs: ONE poll from an arbitrary INV_join pre-state; after an Err the combinator is dropped or polled AGAIN",
  bounds="2 inputs")

# ---------------------------------------------------------------- Layer W: the real waker_list.rs
WL_US = {"SpinMutex.*lock": 1, "DiatomicWaker.*notify": 1, "try_unlock": 1, "try_lock": 1, "MpscQueue.*drop": 3}
W_WL = ("REAL waker_list.rs + cordyceps + diatomic-waker + spin under Kani with memory-safety checks ON (pointer validity, "
        "deallocated-object dereference, double free, bounds): ")
W_SH = ("new(cap); [register(A)]; push(i); pop -> borrowed waker of slot i (symbolic i); clone it; then the collection and the clone die in a fixed order "
        "with a wake in between; probes in new()/drop_inner(): the shared block is allocated once, released exactly once, and only when the last owner is gone; "
        "a wake after the collection is gone only wakes the registered task")
for order, txt in ((0, "collection dropped first, wake_by_ref through the clone, clone dropped last"),
                   (1, "wake_by_ref, clone dropped first, collection last"),
                   (2, "collection dropped first, wake (by value) consumes the last owner")):
    for cap, tiers in ((2, QT),):
        h("wl_shape%d_c%d" % (order, cap), ["C03"], tiers, layer="real", checks="memsafe", unwind=4, unwindset=WL_US, timeout=1500, mem=14,
          covers=["cover:end"], what=W_WL + W_SH + "; order: " + txt, bounds="capacity %d (slot index symbolic); CAS/spin loops unwound 1 (sequential), unwinding assertions on" % cap)
h("wl_shape3_c2", ["C03", "C14"], QT, layer="real", checks="memsafe", unwind=4, unwindset=WL_US, timeout=1500, mem=14, covers=["cover:end"],
  what=W_WL + "as the lifecycle shapes, but the slot is ALREADY QUEUED when its waker is invoked by reference and then twice by value (each consumes a clone): redundant wakes still release their reference, never notify the task, and the block is released once",
  bounds="capacity 2")
h("wl_layout", ["C03"], QT, layer="real", unwind=4, covers=["cover:cap0", "cover:cap_max"],
  what="layout arithmetic of the REAL waker list for EVERY capacity 0..=2^32 (symbolic): header, every slot 0..=cap (the last is the queue's stub node) lie inside the allocated block, aligned, without overlapping the header; the header-pointer recovery is the inverse of the slot address",
  bounds="capacity <= 2^32 (symbolic word), slot index symbolic")
RS_US = dict(WL_US)
RS_US["poll_inner_no_remove#0"] = 4
W_RS = ("the REAL stack end to end under Kani with memory-safety checks ON: FuturesUnorderedBounded::new(1) over the real waker_list.rs / cordyceps / diatomic-waker / spin; push; "
        "poll_next with a symbolic child answer (ready / pending / pending + self-wake) and a symbolic task waker; drop: outcome, task wakes, drops and the release of the shared block")
h("wl_real_stack_1", ["C03", "C01", "C02", "C05", "C14"], T, layer="real", checks="memsafe", unwind=4, unwindset=RS_US, timeout=2400, mem=20,
  covers=["cover:yielded", "cover:not_yielded"], what=W_RS, bounds="capacity 1, ONE poll")
h("wl_real_stack_2", ["C03"], T, layer="real", checks="memsafe", unwind=4, unwindset=RS_US, timeout=3600, mem=28,
  covers=["cover:yielded", "cover:not_yielded"], what=W_RS + " (two polls, the task waker may change in between)", bounds="capacity 1, TWO polls")
h("wl_shape0_c1", ["C03"], T, layer="real", checks="memsafe", unwind=4, unwindset=WL_US, timeout=1500, mem=14, covers=["cover:end"], what=W_WL + W_SH, bounds="capacity 1")
h("wl_shape0_c3", ["C03"], T, layer="real", checks="memsafe", unwind=5, unwindset=WL_US, timeout=2400, mem=20, covers=["cover:end"], what=W_WL + W_SH, bounds="capacity 3")
h("wl_shape2_c3", ["C03"], T, layer="real", checks="memsafe", unwind=5, unwindset=WL_US, timeout=2400, mem=20, covers=["cover:end"], what=W_WL + W_SH, bounds="capacity 3")
h("wl_fifo_c2", ["C03", "C01", "C12", "C13", "C14"], QT, layer="real", checks="memsafe", unwind=4, unwindset=WL_US, timeout=1800, mem=14, covers=["cover:two_slots"],
  what=W_WL + "register(A)[, register(B)]; wake slot i, wake slot j, wake slot i again (symbolic i, j); pops: FIFO order, duplicates coalesced, exactly one notification of the MOST RECENTLY registered waker, re-arming by a new register",
  bounds="capacity 2")
h("wm_lifecycle_c2", ["C03"], T, unwind=5, covers=["cover:end", "cover:wake_after_collection_gone"],
  what="reference model only: the collection and up to two cloned wakers die in a SYMBOLIC order (3 rounds of drop / wake_by_ref / wake), block released exactly once and only by the last owner",
  bounds="capacity 2; 3 rounds")
for n in ("wm_fifo_c2", "wm_shape0_c2", "wm_shape1_c2", "wm_shape2_c2", "wm_shape3_c2"):
    h(n, ["C03"] if "shape" in n else ["C01", "C12", "C14"], T, covers=["cover:end"] if "shape" in n else ["cover:two_slots"],
      what="the Layer W shape " + n.replace("wm_", "wl_") + " on the reference model: the model gives the same observable answers as the real list (refinement evidence for Layer U)", bounds="capacity 2")

ASSUME_COMMON = [
    "bounded model checking: every claim holds for the stated capacities / group counts / self-wake and event budgets only",
    "Layer U: crate compiled against the sequential reference model of waker_list.rs (/verif/hooks/waker_model.rs); cross-thread interleavings finer than one WakerList operation and weak-memory effects are outside the claim",
    "pre-states are all states satisfying the stated representation invariant INV (inductive: every step re-establishes it)",
    "Kani 0.68 sequential semantics; explicit-dispatch stubs for Waker::{wake,wake_by_ref,clone,drop}",
    "failures of Kani's allocator model (__rust_dealloc / free preconditions) are not part of behavioural harnesses (see DESIGN 'Kani artefacts')",
]

for p, names in QUICK.items():
    for n in names:
        hh = [x for x in H if x["name"] == n]
        assert hh and p in hh[0]["props"], (p, n)
out = {"harnesses": H, "functions": {}, "assumptions": {"common": ASSUME_COMMON}}
p = os.path.join(os.path.dirname(os.path.abspath(__file__)), "..", "harnesses.json")
json.dump(out, open(p, "w"), indent=1)
print(len(H), "harnesses")
