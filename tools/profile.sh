#!/bin/bash
# usage: profile.sh <harness> [extra cbmc args] -- histogram of SSA steps per function
H=$1; shift
OUT=$(ls /verif/.cache/target-model/kani/*/debug/build/fbv/*/out/*${H}.out | grep -v symtab | head -1)
timeout 600 cbmc --no-standard-checks --unwinding-assertions --no-malloc-may-fail --no-self-loops-to-assumptions --object-bits 16 --unwind 6 --slice-formula --max-field-sensitivity-array-size 512 "$@" $OUT --program-only --verbosity 4 2>&1 | grep -oE "// [0-9]+ file [^ ]+ line [0-9]+( column [0-9]+)? function .*" | sed -E 's/^.*function //' | sed -E 's/::<.*$//' | sort | uniq -c | sort -rn | head -${TOP:-25}
