#!/bin/bash
# usage: run_all.sh <tier> [props...]   -- runs the checks sequentially, summary in .cache/logs/all-<tier>.txt
T=${1:-quick}; shift
P=${@:-C01 C02 C04 C05 C06 C07 C08 C09 C10 C11 C12 C13 C14 C15 C16 C17 C18 C03}
cd /verif
: > .cache/logs/all-$T.txt
for p in $P; do
  s=$(date +%s)
  ./check $p --tier $T > .cache/logs/run-$p-$T.txt 2>&1
  rc=$?
  echo "$p exit $rc $(( $(date +%s) - s ))s" >> .cache/logs/all-$T.txt
done
