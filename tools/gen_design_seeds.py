#!/usr/bin/env python3
"""re-renders section 9 (seeded changes) of DESIGN.md from seeded/*/meta.json"""
import json, os, glob, re
V = os.path.join(os.path.dirname(os.path.abspath(__file__)), "..")
rows = []
for m in sorted(glob.glob(os.path.join(V, "seeded", "*", "meta.json"))):
    d = json.load(open(m))
    det = d.get("detection", {})
    def cell(k):
        x = det.get(k)
        if not x:
            return "-"
        if x["violations"] > 0 and x["check_exit"] == 1:
            return "VIOLATION: `%s`" % (x["first_violation"].split(":")[0])
        return "missed (exit %d)" % x["check_exit"]
    keys = sorted(det.keys())
    first = cell(keys[0]) if keys else "-"
    last = cell(keys[-1]) if keys else "-"
    rows.append("| `%s` | %s | %s | %s | %s |" % (d["id"], d["property"], d["needs_to_manifest"], first if len(keys) > 1 else "-", last))
hdr = ("See `/verif/seeded/<id>/` (patch.diff, demo test, meta.json). Every change was written by a sub-agent that saw only the property text\n"
       "and a scratch worktree; each was confirmed (44 tests pass with it; its demo fails with it and passes without it) and then\n"
       "applied to /repo, checked with the property's **quick** command, and undone. Round 1 = the checks as first built;\n"
       "now = after strengthening (what was added for each miss is listed below the table). Changes without a round-1 entry were\n"
       "written later (second changes per property, in other areas of the code) and met the strengthened checks only. `d*` = the\n"
       "reverse of each `fix:` commit of this repository.\n\n"
       "| id | property | what it needs to manifest | round 1 | now (quick tier) |\n|---|---|---|---|---|\n")
notes = """
What the misses of round 1 led to: per-property compilation of monitors (a C11 monitor masked a C05 one); C02-labelled
invariant monitors in the ordered collection; cursor / rotation harnesses with a concrete cursor > 0 (`fu_cur_12_c1/c0`,
`fu_rot_124_*`) in the quick tiers of C01/C02/C14/C18; scan of the *new* group after a growing push (C08); `buffered_unordered(3)`
(C09 needs two free slots with a non-empty queue); `ad_bo_n2` (parked output) in C10's quick tier; "Pending implies every
ready live source was polled" (C11); a C12 label on "slot queued although nobody invoked its waker" in the budget harness;
62 idle queued children (C13: with a self-waking child the notify hides a missing budget wake); observer checks on the
unbounded `FuturesOrdered` (C17); a Layer-W shape with redundant wakes by value of an already queued slot (C03).
"""
s = open(os.path.join(V, "DESIGN.md")).read()
a = s.index("## 9. Seeded changes")
s = s[:a] + "## 9. Seeded changes\n\n" + hdr + "\n".join(rows) + "\n" + notes
open(os.path.join(V, "DESIGN.md"), "w").write(s)
print(len(rows), "rows")
