#!/usr/bin/env python3
"""re-renders section 9 (seeded changes) of DESIGN.md from seeded/*/meta.json"""
import json, os, glob, re
V = os.path.join(os.path.dirname(os.path.abspath(__file__)), "..")
rows = []
for m in sorted(glob.glob(os.path.join(V, "seeded", "*", "meta.json"))):
    d = json.load(open(m))
    det = d.get("detection", {})
    def cell(k):
        x = det.get(k)
        if not x:
            return "-"
        if x["violations"] > 0 and x["check_exit"] == 1:
            return "VIOLATION: `%s`" % (x["first_violation"].split(":")[0])
        return "missed (exit %d)" % x["check_exit"]
    keys = sorted(det.keys())
    first = cell(keys[0]) if keys else "-"
    last = cell(keys[-1]) if keys else "-"
    rows.append("| `%s` | %s | %s | %s | %s |" % (d["id"], d["property"], d["needs_to_manifest"], first if len(keys) > 1 else "-", last))
hdr = ("See `/verif/seeded/<id>/` (patch.diff, demo test, meta.json). Every change was written by a sub-agent that saw only the property text\n"
       "and a scratch worktree; each was confirmed (44 tests pass with it; its demo fails with it and passes without it) and then\n"
       "applied to /repo, checked with the property's **quick** command, and undone. Round 1 = the checks as first built;\n"
       "now = after strengthening (what was added for each miss is listed below the table). Changes without a round-1 entry were\n"
       "written later (second changes per property, in other areas of the code) and met the strengthened checks only. `d*` = the\n"
       "reverse of each `fix:` commit of this repository.\n\n"
       "| id | property | what it needs to manifest | round 1 | now (quick tier) |\n|---|---|---|---|---|\n")
notes = """
What the misses of round 1 led to: per-property compilation of monitors (a C11 monitor masked a C05 one); C02-labelled
invariant monitors in the ordered collection; cursor / rotation harnesses with a concrete cursor > 0 (`fu_cur_12_c1/c0`,
`fu_rot_124_*`) in the quick tiers of C01/C02/C14/C18; scan of the *new* group after a growing push (C08); `buffered_unordered(3)`
(C09 needs two free slots with a non-empty queue); `ad_bo_n2` (parked output) in C10's quick tier; "Pending implies every
ready live source was polled" (C11); a C12 label on "slot queued although nobody invoked its waker" in the budget harness;
62 idle queued children (C13: with a self-waking child the notify hides a missing budget wake); observer checks on the
unbounded `FuturesOrdered` (C17); a Layer-W shape with redundant wakes by value of an already queued slot (C03).

Rounds 5 and 6 (18 further changes, 53 in all). For six of them the sub-agent's report made it plain, from the bounds of the
harnesses, that the quick tier as it stood would not see the change, so the checks were extended *before* the first evaluation
(their "now" cell therefore shows the extended check; there is no earlier run to show):
`c04_orderwrapper_signed_cmp` needs two parked outputs whose positions straddle the sign bit -> `fob_poll_c1_p2` (two parked
outputs, symbolic 64-bit counter) plus the monitor "Pending although the front output is parked";
`c15_fu_is_empty_last_group` -> `fu_cur_12_c0` (its poll step compares `is_empty()` with the ghost count) added to C15's quick list;
`c05_mb_finished_budget_requeues` needs five sources ending in one call -> `mb_end_many_6` (six queued sources, solver picks the
subset that ends); `c02_fub_empty_check_after_drain` needs more than 61 stale queue entries on an empty collection ->
`fub_stale_many` (capacity 62, empty, 62 stale entries); `c18_mu_swap_remove_group` needs three groups -> `mu_rot_124_c0/c1`;
adapters had no C14 monitor -> "adapter woke its task although no child waker was invoked" in `ad_*` (no seeded change needed it
in the end: `c14_fu_wakes_after_group_retired` is caught in `FuturesUnordered` itself). `c11_mu_push_drains_older_groups` was
first INCONCLUSIVE (exit 2: `mu_push_12` ran out of its 8 GB cap on the changed code; an inconclusive run is never reported
as a pass); with a 24 GB cap the violation is found and replayed. The remaining eleven were caught by the checks as they stood.

Round 7 (10 further changes, 63 in all; three sub-agents independently arrived at the same edit - the cursor reset after
re-adding the emptied last group of `FuturesUnordered` - for C02, C01 and C13). Predicted misses, extended before evaluation:
`c13_fu_readded_group_keeps_cursor`: `FuturesUnordered` had no C13 monitor across groups -> "Pending although a woken child of
some group was not polled by this call" in `fu.rs`, `fu_cur_12_c1` added to C13's quick list;
`c06_merge_ended_stream_leaked`: the drop-count monitor of an ended merge source carried only a C05 label (monitors are compiled
per property) -> the same obligation under a C06 label; `c09_tbu_future_error_discards_upstream`: "upstream discarded although it
has not ended" was a C10 monitor only -> C09 label (the next step's pre-state cannot see it: a gone upstream *is* an ended upstream
there); `c15_fu_with_capacity_zero_group`: `ctor_fu_0/2` now also push one future (a panic inside /repo is a violation) instead
of only inspecting the group list.

Round 8 (6 further changes, 69 in all). Predicted misses, extended before evaluation: `c02_fob_rejected_push_consumes_index`:
"refused push moved the position counters" carried a C15 label only -> C02 twin, `fob_push_c2` added to C02's quick list;
`c14_mu_wakes_on_readd`: `MergeUnbounded` had no C14 monitor -> "task woken although no child waker was invoked" in its poll
step, `mu_poll_12_c1` added to C14's quick list; `c08_mu_consolidates_into_last_group`: the C08 address monitor of the
`MergeUnbounded` poll step existed but only `mu_push_12` was in C08's quick list -> `mu_poll_12_c1` added.
Two sub-agent results were not kept: one (C05, `futures_unordered_bounded.rs` / `slot_map.rs`) reported, after several attempts,
that every small change there that re-polls or retains a finished child also breaks an existing test; one (C18) allocated in
`FuturesOrderedBounded::poll_next`, a type C18 does not list (the bounded *ordered* queue is not among the "no allocation after
construction" types), so a check that flagged it would demand more than the property states - and that sub-agent's report showed it
had looked into /verif/seeded, against its instructions.

Round 9 (8 further changes, 77 in all; two more rediscoveries of earlier edits). Predicted misses, extended before evaluation:
`c13_budget_requeues_popped_slot_at_tail` needs exactly 61 self-waking children queued ahead of a woken victim ->
`fub_budget_fifo` (capacity 62, concrete; the victim not reached by the call must be at the FRONT of the ready queue afterwards);
`c06_fob_rebase_forgets_heap_top`: the ordered collection had a drop-only C06 step -> `fob_poll_drop_*` (ONE poll with
drop-counted outputs, then drop). Three changes were first INCONCLUSIVE (exit 2, never a pass) and led to further work:
`c03_drop_waker_header_without_index` - the misaddressed header makes the code drop a garbage `Waker`, which trips the harness'
own "no waker operation inside a child-waker operation" assertion before CBMC reaches the bad `dealloc`; on Layer W that assertion
is now treated like a memory-safety failure (candidate C03 violation, confirmed natively by the crash / valgrind);
`c06_fob_rebase_forgets_heap_top` - its raw-pointer rewrite of the re-basing block ran CBMC out of 30 GB with a symbolic position
counter, for capacity 2 and for capacity 1 -> `fob_poll_drop_c1_hi` (counter concretely 2^64-1: the block is taken on every path);
`c10_tbo_error_path_discards_output` - the changed adapter polls the collection twice per call, `ad_tbo_n2` ran out of 24 GB ->
`ad_tbo_n2_q0` (ready queue concretely empty; decides the changed code in 23 min / 2.3 M steps, the unchanged code in 2 min).
"""
s = open(os.path.join(V, "DESIGN.md")).read()
a = s.index("## 9. Seeded changes")
s = s[:a] + "## 9. Seeded changes\n\n" + hdr + "\n".join(rows) + "\n" + notes
open(os.path.join(V, "DESIGN.md"), "w").write(s)
print(len(rows), "rows")
